#!/usr/bin/env python3
"""Generate MANIFEST.json from the check modules' metadata."""
import json, os, sys
HERE = os.path.dirname(os.path.dirname(os.path.abspath(__file__)))

TEXT = {
 "C01": ("model_checking", "composed real stack (client A apply -> reference device -> fresh client B refresh) over bounded-exhaustive state vectors x {V2,V3} x credentials, with a deviation-bounded DFS over every environment choice point (segmentation at every byte offset, coalescing, byte-by-byte, unsolicited/duplicated frames before/after each reply)", "deviation-bounded stateless exploration (E2) of the real stack x exhaustive input enumeration (E1)"),
 "C02": ("exploration", "every frame length 0..255 x content pattern x device id x wall-clock instant through LAN.send, decoded/produced by an independent reference codec", "bounded exhaustive input enumeration on the real code vs. reference codec"),
 "C03": ("fault_enumeration", "every single-bit flip, every truncation, every single-byte substitution and all position pairs x {01,80,FF}^2 of authentic V2 replies; only ProtocolError allowed; exchange after the rejected packet must succeed", "exhaustive fault enumeration on the simulated wire and at the decode seam"),
 "C04": ("model_checking", "all segmentations within the cut bound (all 2^(n-1) for streams <= 16 bytes) of streams of 1..4 V3 packets fed to the real protocol object, compared after every segment with a reference reassembler; same through authenticated LAN.send with timing", "exhaustive schedule (segmentation) enumeration against a reference reassembler"),
 "C05": ("exploration", "payload length 0..300 x all 4096 counters x keys encoded by the library / decoded by the reference and vice versa; every bit flip of responses for all 16 padding residues at the packet seam and through LAN.send; 70k-packet counter session", "bounded exhaustive input + fault enumeration vs. reference codec"),
 "C06": ("fault_enumeration", "genuine handshake reply vs. every bit flip of body/marker/size/magic/type, every wrong length, every packet type, replies under other keys; on fresh and previously authenticated clients; device-side wire log is the observable", "exhaustive fault enumeration on the handshake reply"),
 "C07": ("model_checking", "explicit-state search over event histories (full tree + de-duplicated BFS) replayed on the real LAN object, with a wire monitor (I1..I5) evaluated in every state; long session > 4096 / > 65536 packets", "explicit-state search over operation histories with a wire invariant monitor"),
 "C08": ("model_checking", "all 7^r reply-delay patterns for r=1..4 vs. a reference model of the retry contract; every single fault and ordered pair of faults incl. cancellation at every interval, from 4 start states, followed by an honest exchange", "exhaustive schedule / fault-sequence enumeration vs. reference model"),
 "C09": ("fault_enumeration", "full product of per-field alphabets of V2 and V3 replies at every protocol phase through LAN.send / authenticate / _send_command / refresh; outcome classes only", "grammar-based exhaustive fault enumeration"),
 "C10": ("exploration", "all setpoints x modes x units, all fan and humidity bytes, all flag combinations per byte, single-field sweeps and a pairwise design through apply(); vendor-layout decode of the received 0x40 body must equal the request", "bounded exhaustive input enumeration vs. vendor bit layout"),
 "C11": ("exploration", "all temperature bytes x tenths x sensor x unit, 32x32 setpoint codes, all 256 values of every flag byte, all lengths, both check styles, reported by the simulated device to a fresh client", "bounded exhaustive input enumeration vs. vendor bit layout"),
 "C12": ("model_checking", "every command class with every parameter value fed to an independent device-side parser; long mixed operation histories on the wire with injected retransmissions and several initial counters for the message-id rule", "exhaustive input enumeration + long operation histories against an independent frame parser"),
 "C13": ("fault_enumeration", "every byte position x all 255 substitutes of every response kind, with and without checksum fix-up; independent must-drop oracle; state and capability attributes must be unchanged", "exhaustive single-byte fault enumeration with an independent accept/drop oracle"),
 "C14": ("fault_enumeration", "every truncation, every count/size field value, every response id x short bodies, every group, alone and mixed with good frames, for all five operations", "exhaustive fault enumeration of validating-but-malformed responses"),
 "C15": ("exploration", "every known capability id x value, all sizes, all ordered lists <= 3 over 24 shapes, rotations/reversals of long lists; differential oracle list == merge of singles; every split point on the wire", "metamorphic bounded-exhaustive enumeration (list vs. merge of singles, one page vs. every split)"),
 "C16": ("model_checking", "explicit-state search over setter/apply/refresh/self-clean histories for every capability profile against a pending-set + device-store reference model", "explicit-state search over operation histories vs. reference model"),
 "C17": ("exploration", "ids x ports x serials x 256 type bytes x case x reported-IP x V2/V3 x listening port through discover()/discover_single() on a simulated broadcast with probe validation, also with debug logging on (thorough: every port 1..65535, id bit/byte walk, full product of the per-axis alphabets)", "bounded exhaustive input enumeration on the simulated broadcast"),
 "C18": ("model_checking", "all distinct arrival orders of the reply multiset for configurations of <= 4 hosts (good or one of 6 bad classes, 1..3 copies)", "exhaustive enumeration of datagram arrival orders"),
 "C19": ("fault_enumeration", "all answer-sequence flows (quick: 17 patterns per request, 4913 flows; thorough: every sequence of <= 2 timeouts + each of 10 terminal answers, 29791 flows) over {ok, timeout, HTTP 500/502/503/504/404/302, API error, dropped connection, undecodable body} for the three requests, token-list shapes with near misses, both byte orders; reference server verifies every request; auto-connect discovery", "exhaustive fault-sequence enumeration against a reference server"),
 "C20": ("exploration", "every writable setting, every enum member name (4 letter cases) and value, raw fan integers, number and boolean spellings, all pairs, 4 reported states, invalid catalogue; in-process CLI on the simulated network", "bounded exhaustive input enumeration against an independent interpreter of the README"),
}
NOTE = "real code from /repo's working tree on a virtual-time event loop with an in-memory network; trusts the AES block primitive, hashlib and the hand-transcribed vendor layouts / reference models in mc/ref*.py; bounds are printed in the evidence file"

checks = []
for pid in sorted(TEXT):
    cat, text, tech = TEXT[pid]
    checks.append({
        "property_id": pid,
        "quick_cmd": f"./check {pid} --tier quick",
        "thorough_cmd": f"./check {pid} --tier thorough",
        "evidence_file": f"evidence/{pid}.json",
        "replay_cmd_template": f"./check {pid} --replay {{path}}",
        "engine": "mc",
        "level_claimed": {"category": cat, "text": text, "design_ref": f"DESIGN.md section 4, {pid}"},
        "level_note": NOTE,
        "technique": tech,
    })
m = {
 "version": 1,
 "setup_cmd": "true",
 "hooks": {
  "guard": "MSMART_VERIF",
  "enable": "no hooks are needed: every seam is reached from outside (module attribute assignment, event-loop override, get_async_client); checks import msmart from /repo's working tree (asserted at start)",
  "baseline_off_cmd": "cd /repo && /venv/bin/python -m pytest -ra -q -p no:cacheprovider --timeout=900 --continue-on-collection-errors",
  "source_commits": [],
  "add_only": True
 },
 "engines": [{"name": "mc", "path": "mc/", "serves_properties": sorted(TEXT),
              "kind_free_text": "hand-written explorers for asyncio code: bounded-exhaustive input enumeration (E1), deviation-bounded stateless DFS over environment choice points (E2), explicit-state BFS over operation histories (E3); virtual-time event loop, in-memory network, independent reference codec / device / cloud"}],
 "checks": checks,
 "notes": "All checks re-exec under /venv/bin/python with PYTHONHASHSEED=0. VERIF_SEED changes only filler bytes, never the enumerated case set. known_findings.json lists genuine defects (fixed / known).",
 "not_applicable": []
}
json.dump(m, open(os.path.join(HERE, "MANIFEST.json"), "w"), indent=1)
print("checks:", len(checks))
