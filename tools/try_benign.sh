#!/bin/sh
# tools/try_benign.sh <dir-with-patch.diff> <check ids...> : apply a behaviour-preserving change, every check must stay silent (exit 0)
D=$(cd "$1" && pwd); shift
R=${MSMART_REPO:-/repo}
cd $R || exit 2
[ -n "$(git status --porcelain --untracked-files=no)" ] && { echo "/repo not clean"; exit 2; }
git apply --check "$D/patch.diff" || { echo "PATCH DOES NOT APPLY"; exit 3; }
git apply "$D/patch.diff"
trap 'git -C $R checkout -- .' EXIT
echo "repo tests: $(/venv/bin/python -m pytest -q -p no:cacheprovider --timeout=900 msmart 2>&1 | tail -1)"
cd /verif
for c in "$@"; do
  out=$(./check $c --tier quick 2>&1); r=$?
  if [ $r -eq 0 ]; then echo "$c silent"; else echo "$c ALARM exit=$r: $(echo "$out" | grep -m2 -E 'signature:|HARNESS|Error' | tr '\n' ' ' | cut -c1-300)"; fi
done
