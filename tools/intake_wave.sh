#!/bin/sh
# tools/intake_wave.sh <wave-dir> <first-new-index> [parallel]
# Copies <wave-dir>/Cnn/_seed/k/ to seeded/Cnn-(first+k-1)/ (demo paths rewritten to /repo) and verifies each in its own scratch
# worktree of /repo (MSMART_REPO), so /repo itself and evidence/ stay untouched.  Results: seeded/<id>/intake.txt
W=$1; F=$2; P=${3:-4}
cd /verif
new=""
for d in $W/C*/_seed/*; do
  [ -f $d/patch.diff ] && [ -f $d/demo_test.py ] && [ -f $d/meta.agent.json ] || continue
  wt=$(dirname $(dirname $d)); c=$(basename $wt); k=$(basename $d)
  id=$c-$((F + k - 1))
  [ -f seeded/$id/intake.txt ] && continue
  mkdir -p seeded/$id
  cp $d/patch.diff seeded/$id/; cp $d/meta.agent.json seeded/$id/ 2>/dev/null
  sed "s#$wt#/repo#g" $d/demo_test.py > seeded/$id/demo_test.py
  new="$new $id"
done
echo $new | tr ' ' '\n' | xargs -P $P -I{} sh -c '
  id={}; c=${id%%-*}; R=/tmp/sw_$id
  git -C /repo worktree add --detach $R HEAD >/dev/null 2>&1
  MSMART_REPO=$R tools/try_seed.sh seeded/$id $c > seeded/$id/intake.txt 2>&1
  git -C /repo worktree remove --force $R
  echo "$id: $(grep -E "^(repo tests|demo W|C[0-9]+ )" seeded/$id/intake.txt | tr "\n" "|")"
'
