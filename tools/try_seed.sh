#!/bin/sh
# tools/try_seed.sh <seed-dir> [check ids...]
# Applies <seed-dir>/patch.diff to /repo, runs the repo tests, the demo (rewritten to import from /repo) and the given checks, then reverts
# and runs the demo again on the clean tree.  Prints DETECTED / MISSED per check.
D=$(cd "$1" && pwd); shift
R=${MSMART_REPO:-/repo}
cd $R || exit 2
if [ -n "$(git status --porcelain --untracked-files=no)" ]; then echo "$R not clean"; exit 2; fi
git apply --check "$D/patch.diff" || { echo "PATCH DOES NOT APPLY"; exit 3; }
WT=$(echo "$D" | sed -n 's#^\(/tmp/wt[0-9]*/C[0-9]*\)/.*#\1#p')
DEMO=/tmp/demo_$$.py
if [ -f "$D/demo_test.py" ]; then
  if [ -n "$WT" ]; then sed "s#$WT#$R#g" "$D/demo_test.py" > $DEMO; else sed "s#/repo#$R#g" "$D/demo_test.py" > $DEMO; fi
fi
git apply "$D/patch.diff"
trap 'git -C $R checkout -- . ; rm -f $DEMO' EXIT
echo "files: $(git diff --stat | tail -1)"
echo "repo tests with patch: $(/venv/bin/python -m pytest -q -p no:cacheprovider --timeout=900 msmart 2>&1 | tail -1)"
[ -f $DEMO ] && echo "demo WITH patch (must fail): $(/venv/bin/python -m pytest -q -p no:cacheprovider $DEMO 2>&1 | tail -1)"
cd /verif
for c in "$@"; do
  out=$(./check $c --tier ${TIER:-quick} 2>&1); r=$?
  if [ $r -eq 1 ]; then echo "$c DETECTED: $(echo "$out" | grep -m1 'signature:' )";
  elif [ $r -eq 0 ]; then echo "$c MISSED";
  else echo "$c HARNESS-ERROR: $(echo "$out" | head -5)"; fi
done
git -C $R checkout -- .
[ -f $DEMO ] && echo "demo WITHOUT patch (must pass): $(cd $R && /venv/bin/python -m pytest -q -p no:cacheprovider $DEMO 2>&1 | tail -1)"
