#!/bin/sh
# Every legitimate, behaviour-CHANGING but property-preserving change under benign/L*-* and benign/M*-* must leave the checks silent.
# usage: tools/legit_sweep.sh [prefix]
#   default: the checks of the area the change touches; ALL=1 runs all 20 checks per change (slow: ~3 min each on an idle machine)
cd /verif
for d in benign/${1:-[LMN]}*-*; do
  [ -f $d/patch.diff ] || continue
  b=$(basename $d); a=$(echo $b | sed 's/^[LMN]\([0-9]\)-.*/\1/')
  case $a in
    1) C="C01 C02 C03 C04 C05 C06 C07 C08 C09 C12 C19";;
    2) C="C01 C10 C11 C12 C13 C14 C15 C16 C20";;
    3) C="C01 C08 C09 C10 C11 C12 C13 C14 C15 C16 C17 C20";;
    4) C="C17 C18 C19";;
    5) C="C19";;
    6) C="C20 C17";;
    *) C="";;
  esac
  if [ -n "$ALL" ] || [ -z "$C" ]; then C="C01 C02 C03 C04 C05 C06 C07 C08 C09 C10 C11 C12 C13 C14 C15 C16 C17 C18 C19 C20"; fi
  out=$(tools/try_benign.sh $d $C 2>&1)
  echo "== $b: $(echo "$out" | grep 'repo tests' | cut -c1-60) | $(echo "$out" | grep -c silent) silent | alarms: $(echo "$out" | grep -E 'ALARM|APPLY|not clean' | tr '\n' ' ')"
done
