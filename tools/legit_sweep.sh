#!/bin/sh
# Every legitimate, behaviour-CHANGING but property-preserving change under benign/L*-* must leave ALL checks silent.
# usage: tools/legit_sweep.sh [prefix]
cd /verif
for d in benign/${1:-L}*-*; do
  [ -f $d/patch.diff ] || continue
  out=$(tools/try_benign.sh $d C01 C02 C03 C04 C05 C06 C07 C08 C09 C10 C11 C12 C13 C14 C15 C16 C17 C18 C19 C20 2>&1)
  echo "== $(basename $d): $(echo "$out" | grep 'repo tests' | cut -c1-60) | $(echo "$out" | grep -c silent) silent | alarms: $(echo "$out" | grep -E 'ALARM|APPLY|not clean' | tr '\n' ' ')"
done
