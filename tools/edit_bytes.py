#!/usr/bin/env python3
"""Byte-exact replace in a file (keeps CRLF): tools_edit.py FILE OLD NEW  (OLD/NEW use \n, converted to the file's EOL)."""
import sys
p, old, new = sys.argv[1], sys.argv[2], sys.argv[3]
b = open(p, 'rb').read()
eol = b"\r\n" if b"\r\n" in b else b"\n"
o = old.encode().replace(b"\n", eol)
n = new.encode().replace(b"\n", eol)
assert b.count(o) == 1, f"{b.count(o)} occurrences"
open(p, 'wb').write(b.replace(o, n))
