#!/bin/sh
# Run every quick (or $1=thorough) check, validate the evidence files against the schema.
cd "$(dirname "$0")/.." || exit 2
TIER=${1:-quick}
rc=0
for p in C01 C02 C03 C04 C05 C06 C07 C08 C09 C10 C11 C12 C13 C14 C15 C16 C17 C18 C19 C20; do
  s=$(date +%s)
  out=$(./check $p --tier $TIER 2>&1); r=$?
  e=$(date +%s)
  echo "$p exit=$r $((e-s))s $(echo "$out" | grep -c '^KNOWN-FINDING') known | $(echo "$out" | tail -1 | cut -c1-160)"
  [ $r -ne 0 ] && { rc=1; echo "$out" | head -8; }
done
python3-vt - <<'PY'
import json, jsonschema, glob
schema = json.load(open('/root/.vp/EVIDENCE.schema.json'))
for f in sorted(glob.glob('evidence/*.json')):
    jsonschema.validate(json.load(open(f)), schema)
print("evidence files valid:", len(glob.glob('evidence/*.json')))
PY
exit $rc
