#!/usr/bin/env python3
"""Regenerate the seed table in DESIGN.md (section 5b) from seeded/*/meta.json."""
import glob, json, os, re
root = os.path.dirname(os.path.dirname(os.path.abspath(__file__)))
rows = []
def key(d):
    m = re.match(r"C(\d+)-(\d+)", os.path.basename(d))
    return int(m.group(1)), int(m.group(2))
for d in sorted(glob.glob(f"{root}/seeded/C*-*"), key=key):
    m = json.load(open(f"{d}/meta.json"))
    res = (m.get("check_result") or "").replace("signature:", "").strip()
    note = m.get("note")
    rows.append(f"| {os.path.basename(d)} | {(m.get('title') or '')[:96].replace('|', '/')} | {res[:150].replace('|', '/')}{' - ' + note if note else ''} |")
p = f"{root}/DESIGN.md"
lines = open(p).read().split("\n")
start = next(i for i, l in enumerate(lines) if l.startswith("| seed | change |"))
end = start + 2
while end < len(lines) and lines[end].startswith("| C"):
    end += 1
lines[start + 2:end] = rows
open(p, "w").write("\n".join(lines))
print(len(rows), "rows")
