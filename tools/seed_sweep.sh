#!/bin/sh
# Re-verify every kept seed: repo tests green with the patch, demo fails with / passes without, own check detects it.
cd /verif
for d in seeded/C*-*; do
  id=$(basename $d); c=${id%%-*}
  if [ -n "$EXACT" ]; then [ "$id" = "$1" ] || continue; else [ -n "$1" ] && case "$id" in $1*) ;; *) continue;; esac; fi
  out=$(tools/try_seed.sh $d $c 2>&1)
  t=$(echo "$out" | sed -n 's/^repo tests with patch: //p')
  dp=$(echo "$out" | sed -n 's/^demo WITH patch (must fail): //p')
  dc=$(echo "$out" | sed -n 's/^demo WITHOUT patch (must pass): //p')
  det=$(echo "$out" | grep -E "^C[0-9]+ (DETECTED|MISSED|HARNESS)")
  echo "$id | tests: $t | demo+patch: $dp | demo clean: $dc | $det"
  python3 - "$d" "$c" "$t" "$dp" "$dc" "$det" <<'PY'
import json, sys
d, c, t, dp, dc, det = sys.argv[1:7]
a = json.load(open(f"{d}/meta.agent.json"))
import os
old = json.load(open(f"{d}/meta.json")) if os.path.exists(f"{d}/meta.json") else {}
m = {"property": c, "title": a.get("title"), "what_changed": a.get("what_changed"), "needs_to_manifest": a.get("needs_to_manifest"),
     "source": "independent sub-agent given only the property text and a scratch worktree",
     "verified_by_me": {"repo_tests_with_patch": t, "demo_with_patch": dp, "demo_without_patch": dc,
                        "how": "tools/try_seed.sh: git -C /repo apply patch.diff; pytest msmart; pytest demo_test.py; ./check <id> --tier quick; git -C /repo checkout -- .; pytest demo_test.py"},
     "check_result": det}
if old.get("note"):
    m["note"] = old["note"]
json.dump(m, open(f"{d}/meta.json", "w"), indent=1)
PY
done
