#!/usr/bin/env python3
"""Self-test: apply small hand-written property-breaking changes to /repo one at a time, require the repository's own
tests to stay green and the named check to report a VIOLATION, then revert.   tools/mutants.py [name-substring]"""
import json
import os
import subprocess
import sys

REPO = "/repo"
HERE = os.path.dirname(os.path.dirname(os.path.abspath(__file__)))

M = [
 ("v3-size-plus-6", "msmart/lan.py", 'total_size = int.from_bytes(buf[2:4], "big") + 8', 'total_size = int.from_bytes(buf[2:4], "big") + 6', ["C04"]),
 ("v3-drop-remainder", "msmart/lan.py", "packet, self._buffer = buf[:total_size], bytearray(\n                    buf[total_size:])",
  "packet, self._buffer = buf[:total_size], bytearray(\n                    buf[total_size:] if len(buf) - total_size >= 6 else b\"\")", ["C04"]),
 ("v3-counter-mask-removed", "msmart/lan.py", "        self._packet_id &= 0xFFF  # Mask to 12 bits", "        pass", ["C05"]),
 ("v2-md5-prefix-compare", "msmart/lan.py", "if Security.sign(bytes(packet[:-16])) != rx_hash:", "if Security.sign(bytes(packet[:-16]))[:12] != rx_hash[:12]:", ["C03"]),
 ("v3-sha-prefix-compare", "msmart/lan.py", "if sha256(bytes(header) + decrypted_payload).digest() != rx_hash:",
  "if sha256(bytes(header) + decrypted_payload).digest()[:24] != rx_hash[:24]:", ["C05"]),
 ("store-token-before-verify", "msmart/lan.py", "        _LOGGER.info(\"Authenticating with %s.\", self._protocol.peer)\n",
  "        _LOGGER.info(\"Authenticating with %s.\", self._protocol.peer)\n        self._token, self._key = token, key\n", ["C06"]),
 ("auth-lifetime-12-days", "msmart/lan.py", "AUTHENTICATION_EXPIRATION = timedelta(hours=12)", "AUTHENTICATION_EXPIRATION = timedelta(days=12)", ["C07"]),
 ("lifetime-check-uses-auth", "msmart/lan.py", "        if self._connection_expiration and datetime.now(timezone.utc) > self._connection_expiration:",
  "        if self._connection_expiration and datetime.now(timezone.utc) > self._connection_expiration + timedelta(hours=1):", ["C07"]),
 ("connect-oserror-unmapped", "msmart/lan.py", "        except OSError as e:\n            raise ProtocolError(\"Connect failed.\") from e\n",
  "        except ConnectionResetError as e:\n            raise ProtocolError(\"Connect failed.\") from e\n", ["C08", "C07"]),
 ("device-auth-timeout-unmapped", "msmart/base_device.py", "        except (ProtocolError, TimeoutError) as e:\n            raise AuthenticationError(e) from e",
  "        except ProtocolError as e:\n            raise AuthenticationError(e) from e", ["C09", "C06"]),
 ("v2-timestamp-day-month-swapped", "msmart/lan.py", "                           now.day,\n                           now.month,", "                           now.month,\n                           now.day,", ["C02"]),
 ("v2-device-id-6-bytes", "msmart/lan.py", 'header += device_id.to_bytes(8, "little")  # Device ID\n        header += bytes(12)  # ???',
  'header += (device_id & 0xFFFFFFFFFFFF).to_bytes(6, "little")  # Device ID\n        header += bytes(14)  # ???', ["C02"]),
 ("setstate-eco-mask", "msmart/device/AC/command.py", "        eco = 0x80 if self.eco else 0", "        eco = 0x10 if self.eco else 0", ["C10", "C01"]),
 ("setstate-sleep-turbo-swapped", "msmart/device/AC/command.py", "        sleep = 0x01 if self.sleep else 0\n        turbo = 0x02 if self.turbo else 0",
  "        sleep = 0x02 if self.sleep else 0\n        turbo = 0x01 if self.turbo else 0", ["C10"]),
 ("setstate-alt-temp-range", "msmart/device/AC/command.py", "        if 17 <= integral_temp <= 30:", "        if 17 <= integral_temp <= 32:", ["C10"]),
 ("breeze-mild-not-marked", "msmart/device/AC/device.py", "        self._breeze_mode = (AirConditioner.BreezeMode.BREEZE_MILD if enable\n                             else AirConditioner.BreezeMode.OFF)\n\n        self._updated_properties.add(PropertyId.BREEZE_CONTROL)",
  "        self._breeze_mode = (AirConditioner.BreezeMode.BREEZE_MILD if enable\n                             else AirConditioner.BreezeMode.OFF)\n\n        if enable:\n            self._updated_properties.add(PropertyId.BREEZE_CONTROL)", ["C16"]),
 ("rate-select-readback-default", "msmart/device/AC/device.py", "                    AirConditioner.RateSelect.get_from_value(rate))", "                    AirConditioner.RateSelect.get_from_value(rate if rate != 1 else 100))", ["C16"]),
 ("state-negative-tenths", "msmart/device/AC/command.py", "            return int(temperature) + (decimals if temperature >= 0 else -decimals)",
  "            return int(temperature) + decimals", ["C11"]),
 ("message-id-not-masked", "msmart/device/AC/command.py", "        return Command._message_id & 0xFF", "        return Command._message_id % 0xFF", ["C12"]),
 ("group-data-crc-exempt", "msmart/device/AC/command.py", "            if response_class != PropertiesResponse:", "            if response_class not in (PropertiesResponse, HumidityResponse):", ["C13"]),
 ("stop-at-first-invalid-frame", "msmart/device/AC/device.py", "            except (InvalidFrameException, InvalidResponseException) as e:\n                _LOGGER.error(e)\n                continue",
  "            except (InvalidFrameException, InvalidResponseException) as e:\n                _LOGGER.error(e)\n                break", ["C14"]),
 ("unknown-capability-advance", "msmart/device/AC/command.py", "                # Advanced to next capability\n                caps = caps[3+size:]\n                continue",
  "                # Advanced to next capability\n                caps = caps[4+size:] if size > 1 else caps[3+size:]\n                continue", ["C15"]),
 ("additional-caps-overwrite", "msmart/device/AC/command.py", "        self._capabilities.update(other._capabilities)", "        self._capabilities = {**other._capabilities, **self._capabilities}", ["C15"]),
 ("updated-properties-not-cleared", "msmart/device/AC/device.py", "        # Reset updated properties set\n        self._updated_properties.clear()", "        # Reset updated properties set", ["C16"]),
 ("discovery-dedup-removed", "msmart/discover.py", "        if ip in self._discovered_ips:\n            return\n", "        if ip in self._discovered_ips and False:\n            return\n", ["C18"]),
 ("discovery-dedup-by-addr", "msmart/discover.py", "        if ip in self._discovered_ips:\n            return\n\n        self._discovered_ips.add(ip)",
  "        if addr in self._discovered_ips:\n            return\n\n        self._discovered_ips.add(addr)", ["C18"]),
 ("discovery-reported-ip", "msmart/discover.py", 'return {"ip": ip, "port": port,', 'return {"ip": ip_address, "port": port,', ["C17"]),
 ("discovery-type-decimal", "msmart/discover.py", 'device_type = int(name.split("_")[1], 16)', 'device_type = int(name.split("_")[1].lower(), 16) if not name.split("_")[1].isdigit() else int(name.split("_")[1])', ["C17"]),
 ("token-first-entry", "msmart/cloud.py", '            if token["udpId"] == udpid:', '            if token["udpId"].startswith(udpid[:30]):', ["C19"]),
 ("cloud-sign-quoted-query", "msmart/cloud.py", "            query = unquote_plus(urlencode(sorted(data.items())))", "            query = urlencode(sorted(data.items()))", ["C19"]),
 ("cloud-password-hash-order", "msmart/cloud.py", "            login_hash = login_id + m1.hexdigest() + self.APP_KEY\n            m2 = hashlib.sha256(login_hash.encode(\"ASCII\"))\n\n            return m2.hexdigest()\n",
  "            login_hash = m1.hexdigest() + login_id + self.APP_KEY\n            m2 = hashlib.sha256(login_hash.encode(\"ASCII\"))\n\n            return m2.hexdigest()\n", ["C19"]),
 ("cli-bool-of-string", "msmart/cli.py", "            new_properties[name] = convert(value.capitalize(), bool)", "            new_properties[name] = bool(value)", ["C20"]),
 ("cli-enum-name-case", "msmart/cli.py", "                    new_properties[name] = attr_type[value.upper()]", "                    new_properties[name] = attr_type[value.upper() if value.islower() else value]", ["C20"]),
]


def edit(path, old, new):
    b = open(path, "rb").read()
    eol = b"\r\n" if b"\r\n" in b else b"\n"
    o, n = old.encode().replace(b"\n", eol), new.encode().replace(b"\n", eol)
    if b.count(o) != 1:
        return False
    open(path, "wb").write(b.replace(o, n))
    return True


def sh(cmd, cwd=None):
    return subprocess.run(cmd, shell=True, cwd=cwd, capture_output=True, text=True)


def main():
    sel = sys.argv[1] if len(sys.argv) > 1 else ""
    if sh("git status --porcelain --untracked-files=no", REPO).stdout.strip():
        print("/repo not clean")
        return 2
    results = []
    for name, f, old, new, checks in M:
        if sel and sel not in name:
            continue
        path = os.path.join(REPO, f)
        try:
            if not edit(path, old, new):
                print(f"{name}: PATTERN NOT FOUND")
                results.append({"name": name, "status": "pattern-not-found"})
                continue
            t = sh("/venv/bin/python -m pytest -q -p no:cacheprovider --timeout=900 msmart 2>&1 | tail -1", REPO).stdout.strip()
            tests_ok = "65 passed" in t and "6 failed" in t
            det = {}
            for c in checks:
                r = sh(f"./check {c} --tier quick", HERE)
                sig = [l for l in r.stdout.splitlines() if "signature:" in l]
                det[c] = {"exit": r.returncode, "signature": sig[0].strip() if sig else None}
            status = "DETECTED" if any(d["exit"] == 1 for d in det.values()) else "MISSED"
            print(f"{name}: tests={'green' if tests_ok else 'RED(' + t + ')'} {status} " +
                  " ".join(f"{c}:{'hit' if d['exit'] == 1 else 'miss' if d['exit'] == 0 else 'ERR'}" for c, d in det.items()))
            results.append({"name": name, "file": f, "tests_green": tests_ok, "status": status, "checks": det})
        finally:
            sh("git checkout -- .", REPO)
    out = os.path.join(HERE, "mutants", "RESULTS.json")
    os.makedirs(os.path.dirname(out), exist_ok=True)
    if not sel:
        json.dump(results, open(out, "w"), indent=1)
    return 0


if __name__ == "__main__":
    sys.exit(main())
