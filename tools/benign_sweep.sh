#!/bin/sh
# Every behaviour-preserving change under benign/ must leave the relevant checks silent.
cd /verif
for d in benign/B*-*; do
  b=$(basename $d); a=${b%%-*}
  case $a in
    B1) C="C01 C04 C05 C06 C07 C08 C09";; B2) C="C01 C02 C03 C06 C07 C08 C09";; B3) C="C01 C02 C03 C05 C09 C17";;
    B4) C="C01 C10 C12 C13 C16 C20";; B5) C="C01 C11 C13 C14 C16";; B6) C="C13 C14 C15 C16 C20";;
    B7) C="C01 C08 C10 C11 C13 C14 C16 C20";; B8) C="C17 C18 C19";; B9) C="C19";; B10) C="C20";;
  esac
  out=$(tools/try_benign.sh $d $C 2>&1)
  echo "== $b: $(echo "$out" | grep -c silent) silent, alarms: $(echo "$out" | grep -E 'ALARM|APPLY|not clean' | tr '\n' ' ')"
done
