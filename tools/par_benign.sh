#!/bin/sh
# tools/par_benign.sh [parallel]  - every benign / legitimate patch against the checks of the files it touches (CHECKS_<area> below),
# P at a time, each in its own scratch worktree.  ONLY="C02 C09" restricts the checks run.
P=${1:-4}
cd /verif
ls benign | xargs -P $P -I{} sh -c '
  d=benign/{}; f=$(grep -h "^+++ b/" $d/patch.diff)
  C=""
  case "$f" in *lan.py*) C="$C C01 C02 C03 C04 C05 C06 C07 C08 C09";; esac
  case "$f" in *device/AC/*|*base_device*|*frame.py*|*crc8*|*utils*) C="$C C10 C11 C12 C13 C14 C15 C16";; esac
  case "$f" in *discover.py*) C="$C C17 C18 C19";; esac
  case "$f" in *cloud.py*) C="$C C19";; esac
  case "$f" in *cli.py*) C="$C C20";; esac
  if [ -n "$ONLY" ]; then C2=""; for c in $C; do case " $ONLY " in *" $c "*) C2="$C2 $c";; esac; done; C=$C2; fi
  [ -z "$C" ] && { echo "== {}: no check selected"; exit 0; }
  R=/tmp/pb_{}; git -C /repo worktree add --detach $R HEAD >/dev/null 2>&1
  out=$(MSMART_REPO=$R VERIF_EVIDENCE_DIR=/tmp/pb_ev_{} tools/try_benign.sh $d $C 2>&1)
  git -C /repo worktree remove --force $R; rm -rf /tmp/pb_ev_{}
  echo "== {}: $(echo "$out" | grep "repo tests" | cut -c1-50) | $(echo "$out" | grep -c silent) silent of $(echo $C | wc -w) | alarms: $(echo "$out" | grep -E "ALARM|APPLY|not clean" | tr "\n" " ")"
'
