#!/bin/sh
# tools/par_sweep.sh [parallel] [id-regex]   - seed_sweep.sh for every kept seed, P at a time, each in its own scratch worktree of /repo
P=${1:-6}; RX=${2:-.}
cd /verif
ls seeded | grep -E "$RX" | xargs -P $P -I{} sh -c '
  R=/tmp/ps_{}; git -C /repo worktree add --detach $R HEAD >/dev/null 2>&1
  EXACT=1 MSMART_REPO=$R VERIF_EVIDENCE_DIR=/tmp/ps_ev_{} tools/seed_sweep.sh {}
  git -C /repo worktree remove --force $R; rm -rf /tmp/ps_ev_{}'
