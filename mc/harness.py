"""Execution harness: fresh deterministic world per execution, explorers, sharding."""
from __future__ import annotations

import asyncio
import gc
import hashlib
import logging
import os
import sys
import time as _time
from datetime import datetime, timedelta, timezone
from typing import Any, Callable, Iterable, Optional

REPO = os.environ.get("MSMART_REPO", "/repo")
if sys.path[0] != REPO:
    sys.path.insert(0, REPO)

import msmart  # noqa: E402

assert os.path.realpath(msmart.__file__).startswith(os.path.realpath(REPO) + os.sep), (
    f"msmart imported from {msmart.__file__}, not from {REPO}")

import msmart.cloud as _cloud  # noqa: E402
import msmart.lan as _lan  # noqa: E402
from msmart.device.AC import command as _command  # noqa: E402
from msmart.discover import Discover as _Discover  # noqa: E402

from .vloop import Deadlock, HarnessError, SimNet, VLoop, VPolicy  # noqa: E402,F401

logging.disable(logging.CRITICAL)

SEED = int(os.environ.get("VERIF_SEED", "0") or 0)
EPOCH = datetime(2024, 3, 5, 10, 20, 30, 250000, tzinfo=timezone.utc)

_CUR: list = [None]          # current World
_REAL_TIME = _time.time
_REAL_MONO = _time.monotonic


# ---------------------------------------------------------------- patched clocks
class VDateTime(datetime):
    @classmethod
    def now(cls, tz=None):
        w = _CUR[0]
        if w is None:
            # library code reading the calendar clock outside any world (direct seams): a fixed instant, never the real clock
            t = EPOCH
            t = cls(t.year, t.month, t.day, t.hour, t.minute, t.second, t.microsecond, tzinfo=timezone.utc)
            return t.replace(tzinfo=None) if tz is None else t.astimezone(tz)
        t = w.epoch + timedelta(seconds=w.loop.time())
        t = cls(t.year, t.month, t.day, t.hour, t.minute, t.second, t.microsecond, tzinfo=timezone.utc)
        if tz is None:
            return t.replace(tzinfo=None)
        return t.astimezone(tz)

    @classmethod
    def utcnow(cls):
        return cls.now(timezone.utc).replace(tzinfo=None)


def _vtime() -> float:
    w = _CUR[0]
    if w is None:
        return _REAL_TIME()
    return w.epoch.timestamp() + w.loop.time()


def _vmono() -> float:
    w = _CUR[0]
    if w is None:
        return _REAL_MONO()
    return 1000.0 + w.loop.time()


class _Rand:
    def __init__(self) -> None:
        self.n = 0

    def bytes(self, k: int) -> bytes:
        self.n += 1
        out = b""
        i = 0
        while len(out) < k:
            out += hashlib.sha256(b"rnd%d.%d.%d" % (SEED, self.n, i)).digest()
            i += 1
        return out[:k]


_RAND = _Rand()


def _get_random_bytes(k: int) -> bytes:
    return _RAND.bytes(k)


def _token_hex(n: int = 32) -> str:
    return _RAND.bytes(n).hex()


def _token_urlsafe(n: int = 32) -> str:
    import base64
    return base64.urlsafe_b64encode(_RAND.bytes(n)).rstrip(b"=").decode()


_INSTALLED = False


class _DatetimeModuleProxy:
    """Stands in for `import datetime` inside library modules: .datetime is the virtual clock class."""

    def __init__(self, real):
        self._real = real
        self.datetime = VDateTime

    def __getattr__(self, name):
        return getattr(self._real, name)


def _own_clocks_and_randomness() -> None:
    """Replace, in every already imported msmart module, whatever name is bound to a clock or a randomness source.

    Done by identity of the bound object, not by attribute name, so that it keeps working when the library imports the
    same things under other names (`import datetime as dt`, `from time import time`, `from os import urandom`, ...).
    """
    import datetime as _dtmod
    import os as _os
    import secrets as _secrets
    import Crypto.Random as _crandom
    real_dt = _dtmod.datetime
    repl = {
        id(real_dt): VDateTime,
        id(_REAL_TIME): _vtime, id(_REAL_MONO): _vmono,
        id(_crandom.get_random_bytes): _get_random_bytes, id(_os.urandom): _get_random_bytes,
        id(_secrets.token_bytes): _get_random_bytes, id(_secrets.token_hex): _token_hex, id(_secrets.token_urlsafe): _token_urlsafe,
    }
    for name, mod in list(sys.modules.items()):
        if not (name == "msmart" or name.startswith("msmart.")) or mod is None:
            continue
        for attr, val in list(vars(mod).items()):
            if val is _dtmod:
                setattr(mod, attr, _DatetimeModuleProxy(_dtmod))
            elif val is _time:
                pass        # time.time / time.monotonic are patched on the module itself below
            elif id(val) in repl and not isinstance(val, type(VDateTime)) or val is real_dt:
                setattr(mod, attr, repl[id(val)])


def install() -> None:
    """Take ownership of every source of nondeterminism (DESIGN 1.2)."""
    global _INSTALLED
    if _INSTALLED:
        return
    _INSTALLED = True
    import msmart.base_device  # noqa: F401
    import msmart.cli  # noqa: F401
    import msmart.discover  # noqa: F401
    _own_clocks_and_randomness()
    _lan.datetime = VDateTime if not isinstance(getattr(_lan, "datetime", None), _DatetimeModuleProxy) else _lan.datetime
    _cloud.datetime = VDateTime if not isinstance(getattr(_cloud, "datetime", None), _DatetimeModuleProxy) else _cloud.datetime
    _lan.get_random_bytes = _get_random_bytes
    _cloud.token_hex = _token_hex
    _cloud.token_urlsafe = _token_urlsafe
    _cloud.BaseCloud.DEVICE_ID = "00112233445566aa"
    _time.time = _vtime
    _time.monotonic = _vmono
    # name resolution belongs to the simulated network as well (blocking resolver calls included)
    import socket as _socket
    _real_ghbn, _real_gai = _socket.gethostbyname, _socket.getaddrinfo

    def _gethostbyname(host):
        w = _CUR[0]
        ip = w.net.resolve(host) if w is not None else None
        if ip is None and w is not None:
            raise _socket.gaierror(-2, "Name or service not known")
        return ip if ip is not None else _real_ghbn(host)

    def _getaddrinfo(host, port, family=0, type=0, proto=0, flags=0):
        w = _CUR[0]
        if w is None or host is None:
            return _real_gai(host, port, family, type, proto, flags)
        ip = w.net.resolve(host)
        if ip is None:
            raise _socket.gaierror(-2, "Name or service not known")
        return [(_socket.AF_INET, type or _socket.SOCK_STREAM, proto, "", (ip, port or 0))]
    _socket.gethostbyname = _gethostbyname
    _socket.getaddrinfo = _getaddrinfo


def filler(tag: str, n: int) -> bytes:
    """Seeded filler bytes: VERIF_SEED changes concrete values, never the case set."""
    out = b""
    i = 0
    while len(out) < n:
        out += hashlib.sha256(f"{SEED}/{tag}/{i}".encode()).digest()
        i += 1
    return out[:n]


# ---------------------------------------------------------------- logging configuration of the user
class debug_logging:
    """with debug_logging(): the user has switched on debug logging of the library (every record is formatted, then dropped)."""

    class _Sink(logging.Handler):
        def emit(self, record):
            record.getMessage()

    def __enter__(self):
        self.h = self._Sink()
        self.lg = logging.getLogger("msmart")
        self.old = self.lg.level
        logging.disable(logging.NOTSET)
        self.lg.setLevel(logging.DEBUG)
        self.lg.addHandler(self.h)
        self.lg.propagate = False
        return self

    def __exit__(self, *a):
        self.lg.removeHandler(self.h)
        self.lg.setLevel(self.old)
        self.lg.propagate = True
        logging.disable(logging.CRITICAL)
        return False


# ---------------------------------------------------------------- wall-clock watchdog
class WallClockExceeded(BaseException):
    """One execution of the code under test did not finish within its REAL-time budget (the virtual loop cannot pre-empt a
    synchronous loop inside the library): reported as that execution's outcome, i.e. neither result, error nor timeout."""


class ShardBudgetExceeded(BaseException):
    """The whole shard ran far longer than it ever does on the unchanged tree (state space blown up by the tree under test)."""


EXEC_BUDGET = float(os.environ.get("VERIF_EXEC_BUDGET", "30"))
_DEADLINE = {"exec": None, "shard": None}
_HITS = [0]        # executions stopped by the watchdog in this process; later ones get a short leash so the shard still ends


def _rearm() -> None:
    import signal as _sig
    import time as _rt
    now = _REAL_MONO()
    pend = [d for d in _DEADLINE.values() if d is not None]
    try:
        _sig.setitimer(_sig.ITIMER_REAL, max(min(pend) - now, 0.001) if pend else 0)
    except (ValueError, OSError):
        pass


def _on_alarm(signum, frame):
    now = _REAL_MONO()
    if _DEADLINE["exec"] is not None and now >= _DEADLINE["exec"]:
        _DEADLINE["exec"] = None
        _HITS[0] += 1
        if _HITS[0] >= 8 and _DEADLINE["shard"] is not None:
            _DEADLINE["shard"] = now + 1.0      # this tree hangs again and again: stop the shard, keep what it found
        _rearm()
        raise WallClockExceeded("execution still running after its real-time budget")
    if _DEADLINE["shard"] is not None and now >= _DEADLINE["shard"]:
        _DEADLINE["shard"] = now + 5.0          # keep knocking until the exception gets through
        _rearm()
        raise ShardBudgetExceeded("shard exceeded its wall-clock budget")
    _rearm()


def arm_shard_budget(seconds: Optional[float]) -> None:
    import signal as _sig
    try:
        _sig.signal(_sig.SIGALRM, _on_alarm)
    except ValueError:
        return
    _DEADLINE["shard"] = None if seconds is None else _REAL_MONO() + seconds
    _DEADLINE["exec"] = None
    _rearm()


class exec_guard:
    """with exec_guard(budget): ... - real-time bound for one execution of the code under test."""

    def __init__(self, budget: Optional[float] = None) -> None:
        self.budget = EXEC_BUDGET if budget is None else budget

    def __enter__(self):
        import signal as _sig
        try:
            if _sig.getsignal(_sig.SIGALRM) is not _on_alarm:
                _sig.signal(_sig.SIGALRM, _on_alarm)
        except ValueError:
            return self
        self.prev = _DEADLINE["exec"]
        _DEADLINE["exec"] = _REAL_MONO() + (self.budget if not _HITS[0] else min(self.budget, 2.0))
        _rearm()
        return self

    def __exit__(self, *a):
        _DEADLINE["exec"] = getattr(self, "prev", None)
        _rearm()
        return False


# ---------------------------------------------------------------- world
class World:
    """One execution's universe: fresh loop, fresh network, reset class state."""

    def __init__(self, epoch: Optional[datetime] = None, message_id: int = 0) -> None:
        install()
        self.epoch = epoch or EPOCH
        self.net = SimNet()
        self.loop = VLoop(self.net)
        self.instants: list[float] = []
        _RAND.n = 0
        _command.Command._message_id = message_id
        _Discover._lock = None
        _Discover._cloud = None
        _Discover._account = None
        _Discover._password = None
        _Discover._auto_connect = False
        if hasattr(_Discover, "_get_async_client"):
            try:
                delattr(_Discover, "_get_async_client")
            except AttributeError:
                pass
        _CUR[0] = self

    def now(self) -> float:
        return self.loop.time()

    def run(self, coro, *, cancel_at: Optional[float] = None, limit: float = 1e7, budget: Optional[float] = None):
        """Run `coro` to completion.  Returns ("ok", value) | ("exc", exception) | ("deadlock", None).

        budget: real seconds this one execution may take (default EXEC_BUDGET); exceeding it is the outcome
        ("exc", WallClockExceeded)."""
        loop = self.loop
        _CUR[0] = self
        asyncio.set_event_loop(loop)
        task = loop.create_task(coro)
        if cancel_at is not None:
            loop.call_at(cancel_at, task.cancel)
        try:
            try:
                with exec_guard(budget):
                    v = loop.run_until_complete(task)
                return ("ok", v)
            except WallClockExceeded as e:
                return ("exc", e)
            except Deadlock:
                task.cancel()
                return ("deadlock", None)
            except asyncio.CancelledError as e:
                return ("exc", e)
            except Exception as e:  # noqa: BLE001 - the outcome *is* the exception
                return ("exc", e)
        finally:
            asyncio.set_event_loop(None)

    def adopt_asyncio_run(self) -> None:
        """Serve asyncio.run() (used by the CLI) with virtual loops that share this world's network."""
        world = self

        def make():
            loop = VLoop(world.net)
            world.loop = loop
            return loop
        self._old_policy = asyncio.get_event_loop_policy()
        asyncio.set_event_loop_policy(VPolicy(make))

    def close(self) -> None:
        if getattr(self, "_old_policy", None) is not None:
            asyncio.set_event_loop_policy(self._old_policy)
            self._old_policy = None
        _CUR[0] = None
        try:
            # cancel whatever is left so nothing leaks into the next execution
            for h in list(self.loop._scheduled):
                h.cancel()
            self.loop._ready.clear()
            self.loop._scheduled.clear()
            self.loop.close()
        except Exception:  # noqa: BLE001
            pass

    def loop_errors(self) -> list[str]:
        gc.collect(1)
        out = []
        for c in self.loop.exceptions:
            e = c.get("exception")
            out.append(f"{c.get('message')}: {type(e).__name__ if e else None}")
        return out


def exc_class(outcome) -> str:
    kind, v = outcome
    if kind == "ok":
        return "ok"
    if kind == "deadlock":
        return "deadlock"
    return type(v).__name__


# ---------------------------------------------------------------- choice points
class Chooser:
    def __init__(self, prefix: Iterable[int] = ()) -> None:
        self.prefix = list(prefix)
        self.trace: list[tuple[str, int, int]] = []

    def pick(self, label: str, n: int) -> int:
        i = len(self.trace)
        if i < len(self.prefix):
            c = self.prefix[i]
            if c >= n:
                raise HarnessError(f"replay diverged at choice {i} ({label}): {c} >= {n}")
        else:
            c = 0
        self.trace.append((label, n, c))
        return c

    def choices(self) -> list[int]:
        return [c for _, _, c in self.trace]


def explore(run: Callable[[Chooser], Any], bound: int, on_exec: Callable[[Chooser, Any], None],
            max_execs: Optional[int] = None) -> dict:
    """Deviation-bounded DFS (E2): every execution with at most `bound` non-default answers."""
    stack: list[list[int]] = [[]]
    n = 0
    points = 0
    capped = False
    while stack:
        if max_execs is not None and n >= max_execs:
            capped = True
            break
        prefix = stack.pop()
        ch = Chooser(prefix)
        obs = run(ch)
        if len(ch.trace) < len(prefix):
            raise HarnessError("replay consumed fewer choices than the prefix holds")
        n += 1
        points += len(ch.trace)
        on_exec(ch, obs)
        devs = sum(1 for c in prefix if c)
        if devs + 1 > bound:
            continue
        tr = ch.trace
        base = [c for _, _, c in tr]
        for i in range(len(tr) - 1, len(prefix) - 1, -1):
            for alt in range(tr[i][1] - 1, 0, -1):
                stack.append(base[:i] + [alt])
    return {"executions": n, "choice_points": points, "capped": capped, "bound": bound}


# ---------------------------------------------------------------- digests
def _canon(obj):
    """Observation without incidental identity: buffers by content, no object addresses."""
    if isinstance(obj, (memoryview, bytearray)):
        return bytes(obj)
    if isinstance(obj, (list, tuple)):
        return type(obj)(_canon(x) for x in obj)
    if isinstance(obj, dict):
        return {k: _canon(v) for k, v in obj.items()}
    if isinstance(obj, str):
        import re
        return re.sub(r" at 0x[0-9a-fA-F]+", "", obj)
    return obj


def digest(obj) -> str:
    import re
    return hashlib.sha256(re.sub(r" at 0x[0-9a-fA-F]+", "", repr(_canon(obj))).encode()).hexdigest()[:16]


class Determinism:
    """Re-run the first K executions and every M-th after that; digests must agree."""

    def __init__(self, first: int = 50, every: int = 997) -> None:
        self.first, self.every = first, every
        self.n = 0
        self.reruns = 0

    def due(self) -> bool:
        self.n += 1
        return self.n <= self.first or self.n % self.every == 0

    def check(self, a, b, what) -> None:
        self.reruns += 1
        if digest(a) != digest(b):
            raise HarnessError(f"non-deterministic execution for {what!r}:\n  {a!r}\n  {b!r}")
