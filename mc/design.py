"""Settable-state alphabets and a deterministic strength-2 covering design (used by C01, C10, C20)."""
from __future__ import annotations

import itertools
import random

SETPOINTS = [13.0 + 0.5 * i for i in range(62)]          # 13.0 .. 43.5
MODES = [1, 2, 3, 4, 5, 6]
SWINGS = [0x0, 0xC, 0x3, 0xF]
AUX = [0, 1, 2]
FAN_ALL = list(range(0, 128))
FAN_REP = [1, 20, 40, 50, 60, 80, 99, 100, 101, 102]
HUM_ALL = list(range(0, 128))
HUM_REP = [0, 1, 35, 40, 64, 99, 100]
BOOLS = ["power", "eco", "turbo", "sleep", "fahrenheit", "freeze", "follow_me", "purifier", "beep"]

BASE = {"power": True, "mode": 2, "temp": 24.0, "fan": 102, "swing": 0, "eco": False, "turbo": False, "sleep": False,
        "fahrenheit": False, "freeze": False, "follow_me": False, "purifier": False, "humidity": 40, "aux": 0, "beep": False}

BASES = [
    BASE,
    {**BASE, "power": False, "mode": 4, "temp": 17.5, "fan": 40, "swing": 0xF, "eco": True, "turbo": True, "sleep": True,
     "fahrenheit": True, "freeze": True, "follow_me": True, "purifier": True, "humidity": 65, "aux": 1, "beep": True},
    {**BASE, "mode": 6, "temp": 30.5, "fan": 1, "swing": 0xC, "sleep": True, "purifier": True, "humidity": 0, "aux": 2},
    {**BASE, "power": False, "mode": 1, "temp": 13.0, "fan": 100, "swing": 0x3, "eco": True, "fahrenheit": True, "humidity": 100},
]


def field_domains(rep: bool = True) -> dict:
    d = {"temp": SETPOINTS, "mode": MODES, "swing": SWINGS, "aux": AUX,
         "fan": FAN_REP if rep else FAN_ALL, "humidity": HUM_REP if rep else HUM_ALL}
    for b in BOOLS:
        d[b] = [False, True]
    return d


def pairwise(domains: dict, seed: int = 1234) -> list[dict]:
    """Greedy strength-2 covering array; deterministic."""
    rnd = random.Random(seed)
    names = sorted(domains)
    uncovered = set()
    for a, b in itertools.combinations(names, 2):
        for va in range(len(domains[a])):
            for vb in range(len(domains[b])):
                uncovered.add((a, va, b, vb))
    rows = []
    while uncovered:
        a, va, b, vb = min(uncovered)       # deterministic seed pair
        row = {a: va, b: vb}
        order = [n for n in names if n not in row]
        rnd.shuffle(order)
        for n in order:
            best, bestc = 0, -1
            for v in range(len(domains[n])):
                c = 0
                for m, vm in row.items():
                    key = (m, vm, n, v) if m < n else (n, v, m, vm)
                    if key in uncovered:
                        c += 1
                if c > bestc:
                    best, bestc = v, c
            row[n] = best
        for m, n in itertools.combinations(sorted(row), 2):
            uncovered.discard((m, row[m], n, row[n]))
        rows.append({n: domains[n][row[n]] for n in names})
    return rows


def single_field_sweeps(bases=None) -> list[dict]:
    """Every value of every field against each base vector."""
    out = []
    dom = field_domains(rep=False)
    for base in (bases or BASES):
        for f, vals in dom.items():
            for v in vals:
                out.append({**base, f: v})
    return out


def apply_to_client(ac, s: dict, aliases: bool = False) -> None:
    """Set the public attributes of an AirConditioner from a state vector (aliases: through the older attribute names
    eco_mode / turbo_mode / sleep_mode / freeze_protection_mode that the library still offers)."""
    from msmart.device import AirConditioner as AC
    ac.power_state = s["power"]
    ac.operational_mode = AC.OperationalMode(s["mode"])
    ac.target_temperature = s["temp"]
    try:
        ac.fan_speed = AC.FanSpeed(s["fan"])
    except ValueError:
        ac.fan_speed = s["fan"]
    ac.swing_mode = AC.SwingMode(s["swing"])
    if aliases:
        ac.eco_mode, ac.turbo_mode, ac.sleep_mode, ac.freeze_protection_mode = s["eco"], s["turbo"], s["sleep"], s["freeze"]
    else:
        ac.eco, ac.turbo, ac.sleep, ac.freeze_protection = s["eco"], s["turbo"], s["sleep"], s["freeze"]
    ac.fahrenheit = s["fahrenheit"]
    ac.follow_me = s["follow_me"]
    ac.purifier = s["purifier"]
    ac.target_humidity = s["humidity"]
    ac.aux_mode = AC.AuxHeatMode(s["aux"])
    ac.beep = s["beep"]


def as_device_state(s: dict) -> dict:
    """The reference-device state a correct stack must produce for requested vector s."""
    return {"power": s["power"], "mode": s["mode"], "temp": s["temp"], "fan": s["fan"], "swing": s["swing"], "eco": s["eco"],
            "turbo": s["turbo"], "sleep": s["sleep"], "fahrenheit": s["fahrenheit"], "freeze": s["freeze"],
            "follow_me": s["follow_me"], "purifier": s["purifier"], "humidity": s["humidity"],
            "aux_heat": s["aux"] == 1, "indep_aux": s["aux"] == 2}
