"""Entry point: ./check <ID> [--tier quick|thorough] [--replay file]."""
from __future__ import annotations

import argparse
import importlib
import json
import os
import sys


def main() -> int:
    ap = argparse.ArgumentParser()
    ap.add_argument("property")
    ap.add_argument("--tier", default=os.environ.get("VERIF_TIER") or "quick", choices=["quick", "thorough"])
    ap.add_argument("--replay")
    ap.add_argument("--workers", type=int, default=0)
    a = ap.parse_args()

    seed = int(os.environ.get("VERIF_SEED", "0") or 0)
    prop = a.property.upper()
    try:
        mod = importlib.import_module(f"mc.checks.{prop.lower()}")
    except ModuleNotFoundError as e:
        if e.name and e.name.startswith("mc.checks"):
            print(f"no check for {prop}")
            return 2
        raise

    from .report import run_check, unjson

    if a.replay:
        with open(a.replay) as f:
            rec = json.load(f)
        case = unjson(rec["case"])
        for i in (1, 2):
            obs = mod.replay(case)
            print(f"replay run {i}: {obs}")
        return 0

    return run_check(mod, a.tier, seed, a.workers or None)


if __name__ == "__main__":
    sys.exit(main())
