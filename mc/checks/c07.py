"""C07 - V3 session discipline: no data before handshake, right key, bounded counter."""
from __future__ import annotations

import asyncio
import collections
import hashlib
from datetime import datetime, timedelta

from msmart.lan import LAN, ProtocolError

from .. import refcodec as rc
from ..harness import Determinism, World, exc_class, filler
from ..report import Stats, h8
from ..simdev import SimDevice
from ..vloop import SimNet, SimTcp

PROPERTY = "C07"
LEVEL = "model_checking"
RULE = ("explicit-state search over operation histories (E3): a state is the history that reaches it, rebuilt on a fresh virtual "
        "loop by replaying the real LAN object against the reference V3 device. Events: send answered promptly / device silent / "
        "error packet / peer close / handshake unanswered / connect refused, explicit authenticate with good or unknown credentials, unanswered or with the connect refused, "
        "clock jump past the 12 h authentication lifetime (by 1 h and by 1 min) and of 7 h (two of them exceed it), clock jumps past (and of 0.6x, and of 24 h + 10 s) the configured connection lifetime, cancellation of a "
        "send and of an explicit authenticate at every interval between loop events. (a) full history tree without de-duplication to depth D1; (b) breadth-first "
        "search with de-duplication on a name-agnostic structural fingerprint of the library objects + device state to depth D2. "
        "A wire monitor (I1 only handshakes with the token before an accepted handshake; I2 data verifies under the session key of "
        "the latest accepted handshake and carries the device id; I3 counters +1 per connection; I4 re-handshake after expiry, new "
        "connection after lifetime; I5 only ProtocolError/TimeoutError/CancelledError escape) is evaluated on the complete "
        "device-side log of every state. Plus one session of >4096 (quick) / >65536 (thorough) sends on one connection (quick: topped up to "
        ">65536 packets by back-to-back writes), followed by the 12 h expiry and a renewal handshake on that connection.")
ASSUMPTIONS = ["operations do not overlap; in-flight bytes are delivered before the next operation starts",
               "the reference device keeps the session key of the latest accepted handshake and answers unknown tokens with an error packet",
               "de-duplication abstracts integers >= 2 (packet counters) to '2+'; counter behaviour itself is covered by the long session",
               "histories begin with an authenticate call (a V3 device cannot be used before the user supplied credentials)"]
IP, PORT = "10.0.0.2", 6444
CMD = bytes.fromhex("aa21ac8d000000000003418100ff03ff000200000000000000000000000003016971")
LIFETIME = 60
WRAPS = tuple(1 << k for k in range(8, 17))

BASE_EVENTS = [
    ("send", "ok"), ("send", "silent"), ("send", "error"), ("send", "close"), ("send", "hs-silent"), ("send", "refuse"),
    ("auth", "good"), ("auth", "bad"), ("auth", "hs-silent"), ("auth", "refuse"),
    ("jump", "12h"), ("jump", "life"), ("jump", "part"), ("jump", "day"), ("jump", "7h"), ("jump", "12h+"),
]


def depths(tier):
    return {"tree": 5 if tier == "thorough" else 4, "bfs": 10 if tier == "thorough" else 6,
            "long": 70000 if tier == "thorough" else 4200}


def bounds(tier):
    d = depths(tier)
    return {"full_tree_depth": d["tree"], "dedup_bfs_depth": d["bfs"], "long_session_sends": d["long"],
            "events": [f"{a}[{b}]" for a, b in BASE_EVENTS] + ["send[cancel@every interval]"],
            "configurations": ["max_connection_lifetime=60", "no connection lifetime"]}


def shards(tier):
    out = []
    for life in (1, 0):
        out.append(("bfs", life, 0, 1))
        for part in range(32 if tier == "thorough" else 14):
            out.append(("tree", life, part, 32 if tier == "thorough" else 14))
    out.append(("long", 1, 0, 1))
    return out


TOKEN, KEY = None, None


def creds():
    # first / last bytes are ASCII white space: credentials are opaque bytes, not text
    return b"\x20" + filler("c07/tok", 62) + b"\x0a", b"\x09" + filler("c07/key", 30) + b"\x0d"


class Run:
    """Replay one history on a fresh world; keep everything observable."""

    def __init__(self, hist, life: bool, trace_extra_send: bool = False):
        self.hist = hist
        self.w = w = World()
        self.token, self.key = creds()
        self.bad_token, self.bad_key = filler("c07/badtok", 64), filler("c07/badkey", 32)
        self.cur = None
        self.dev = SimDevice(version=3, token=self.token, key=self.key, device_id=0xABCDEF, script=self._script)
        self.dev.lossy = self._lossy
        w.net.listen(IP, PORT, self.dev)
        w.net.connect_policy = self._policy
        self.lan = LAN(IP, PORT, 0xABCDEF)
        if life:
            self.lan.max_connection_lifetime = LIFETIME
        self.life = life
        self.marks = []     # per event: dict(rx_from, conns_from, live_conn, outcome)
        self.instants = []
        self.trace_extra_send = trace_extra_send
        self.outcome = w.run(self._drive())

    def _lossy(self, conn, ptype):
        # a silent device is one our packets do not reach (its session state does not move)
        f = self.cur
        return (f == "silent" and ptype == rc.T_ENC_REQ) or (f == "hs-silent" and ptype == rc.T_HANDSHAKE_REQ)

    def _script(self, req):
        f = self.cur
        if f == "error" and req.kind == "data":
            req.send(rc.v3_build_plain(rc.T_ERROR, 0, b""))
            return
        if f == "close" and req.kind == "data":
            req.close()
            return
        for p in req.responses:
            req.send(p)

    def _policy(self, host, port, n):
        return SimNet.REFUSE if self.cur == "refuse" else None

    def live_conn(self):
        for c in reversed(self.w.net.conns):
            if not c.closing:
                return c.index
        return None

    async def _op(self, ev):
        kind, arg = ev[0], ev[1]
        w = self.w
        mark = {"ev": ev, "rx_from": len(self.dev.rx), "conns_from": len(w.net.conns), "live": self.live_conn(), "t": w.now()}
        self.marks.append(mark)
        res = None
        if kind == "jump":
            # "day": one whole day and a few seconds (a multiple of 24 h plus less than the lifetime)
            w.loop.jump({"12h": 13 * 3600, "12h+": 12 * 3600 + 60, "life": LIFETIME + 1, "part": LIFETIME * 0.6, "day": 86400 + 10, "7h": 7 * 3600}[arg])
            mark["outcome"] = "jumped"
            return
        self.cur = arg if arg not in ("ok", "good", "bad", "cancel", "cancel-auth") else None
        if kind == "send":
            coro = self.lan.send(CMD)
        elif arg == "bad":
            coro = self.lan.authenticate(self.bad_token, self.bad_key)
        else:
            coro = self.lan.authenticate(self.token, self.key)
        t = asyncio.ensure_future(coro)
        if arg in ("cancel", "cancel-auth"):
            w.loop.call_at(ev[2], t.cancel)
        try:
            res = await t
            mark["outcome"] = "ok"
        except asyncio.CancelledError:
            mark["outcome"] = "CancelledError"
        except BaseException as e:  # noqa: BLE001
            mark["outcome"] = type(e).__name__
            mark["exc"] = e
        self.cur = None
        # let in-flight bytes land: operations of a history do not overlap
        await asyncio.sleep(0.05)
        mark["rx_to"] = len(self.dev.rx)

    async def _drive(self):
        for ev in self.hist:
            await self._op(ev)
        if self.trace_extra_send:
            self.w.loop.trace_instants = self.instants
            self.instants.append(self.w.now())
            await self._op(("send", "ok") if self.trace_extra_send is True else ("auth", "good"))
            self.w.loop.trace_instants = None

    def cancel_points(self):
        # interior point of every interval between consecutive loop instants of the traced send
        # (the last 0.05 s settle interval is not part of the send)
        ins = self.instants
        m = self.marks[-1]
        end = None
        pts = []
        for a, b in zip(ins, ins[1:]):
            if b - a > 1e-9:
                pts.append(round((a + b) / 2, 9))
        return pts[:-1] if len(pts) > 1 else pts

    def close(self):
        self.w.close()


# ---------------------------------------------------------------- monitor
def monitor(run: Run):
    """Evaluate I1..I5 on the complete log.  Returns list of (signature, detail)."""
    out = []
    dev = run.dev
    per_conn = collections.defaultdict(list)
    for e in dev.rx:
        per_conn[e["conn"]].append(e)
    # the configured token is the good one; the unknown token may only appear while the explicit
    # authenticate call that supplied it is running
    bad_windows = [(m["rx_from"], m.get("rx_to", len(dev.rx))) for m in run.marks if m["ev"] == ("auth", "bad")]
    index_of = {id(e): i for i, e in enumerate(dev.rx)}

    def token_ok(e):
        if e.get("token") == run.token:
            return True
        i = index_of[id(e)]
        return e.get("token") == run.bad_token and any(a <= i < b for a, b in bad_windows)
    for cidx, entries in per_conn.items():
        accepted = False
        prev = None
        for e in entries:
            pt = e.get("ptype")
            if not accepted:
                if pt != rc.T_HANDSHAKE_REQ:
                    out.append(("I1 non-handshake packet before an accepted handshake", f"conn {cidx} type {pt}"))
                elif not token_ok(e):
                    out.append(("I1 handshake request without the configured token", f"conn {cidx}"))
            if pt == rc.T_HANDSHAKE_REQ and accepted and not token_ok(e):
                out.append(("I1 re-handshake without the configured token", f"conn {cidx}"))
            if pt == rc.T_HANDSHAKE_REQ and e["ok"] and not e.get("lost"):
                accepted = True
            if pt == rc.T_ENC_REQ:
                if not e["ok"]:
                    out.append(("I2 data packet does not verify under the latest session key", f"conn {cidx}: {e.get('error')}"))
                elif e.get("device_id") != 0xABCDEF:
                    out.append(("I2 data packet for another device id", f"{e.get('device_id')}"))
            elif pt != rc.T_HANDSHAKE_REQ:
                out.append(("I1 unexpected packet type on the wire", f"type {pt}"))
            c = e.get("counter")
            if c is not None:
                # +1 per packet; a wrap to zero is legitimate only at a power of two between 2^8 and 2^16 (2-byte field)
                if prev is not None and c != prev + 1 and not (c == 0 and prev + 1 in WRAPS):
                    out.append(("I3 counter step", f"conn {cidx}: {prev}->{c}"))
                prev = c
    # I4 (general form): with a connection lifetime configured, nothing is written on a connection older than that
    if run.life:
        # (only the first packet of an exchange: retransmissions inside an exchange that began in time are legitimate)
        opened = {c.index: c.opened_at for c in run.w.net.conns}
        for m in run.marks:
            if m["ev"][0] == "jump" or m["rx_from"] >= len(dev.rx) or m["rx_from"] >= m.get("rx_to", len(dev.rx)):
                continue
            e = dev.rx[m["rx_from"]]
            if e["t"] - opened[e["conn"]] > LIFETIME + 1e-6:
                out.append(("I4 packet written on a connection past its lifetime", f"conn {e['conn']} age {e['t'] - opened[e['conn']]:.1f}s"))
                break
    # I4 (general form, authentication): the first data packet of an operation is never written under a handshake that
    # succeeded more than 12 h earlier (however the 12 h were accumulated)
    for m in run.marks:
        if m["ev"][0] == "jump" or m["rx_from"] >= m.get("rx_to", len(dev.rx)):
            continue
        e = dev.rx[m["rx_from"]]
        if e.get("ptype") != rc.T_ENC_REQ:
            continue
        hs = [x for x in dev.rx[:m["rx_from"]] if x["conn"] == e["conn"] and x.get("ptype") == rc.T_HANDSHAKE_REQ and x["ok"] and not x.get("lost")]
        if hs and e["t"] - hs[-1]["t"] > 12 * 3600 + 5:
            out.append(("I4 data written under an authentication older than 12 h", f"conn {e['conn']} age {(e['t'] - hs[-1]['t']) / 3600:.1f} h"))
            break
    # raw bytes that the device could not even frame
    for c in run.w.net.conns:
        if c.state.get("buf"):
            out.append(("I1 unframed bytes written", c.state["buf"][:16].hex()))
        written = b"".join(d for _, d in c.writes)
        framed = b"".join(e["raw"] for e in per_conn.get(c.index, []))
        if written != framed + c.state.get("buf", b""):
            # bytes the reference reassembler had to skip: not V3 packets at all (e.g. a bare V2 packet)
            out.append(("I1 bytes that are not V3 packets written to the connection", f"conn {c.index}: {written[:16].hex()}"))
    # I4
    for i, m in enumerate(run.marks):
        if m["ev"][0] != "jump":
            continue
        later = dev.rx[m["rx_from"]:]
        if not later:
            continue
        first = later[0]
        if m["ev"][1] in ("12h", "12h+", "life", "day") and first.get("ptype") != rc.T_HANDSHAKE_REQ:
            out.append((f"I4 first packet after jump>{m['ev'][1]} is not a handshake", f"type {first.get('ptype')}"))
        if m["ev"][1] in ("life", "day") and run.life and m["live"] is not None:
            if any(e["conn"] == m["live"] for e in later):
                out.append(("I4 packet written on a connection past its lifetime", f"conn {m['live']}"))
        if m["ev"][1] in ("12h", "12h+", "day"):
            # no data may be written after the authentication lifetime until a new handshake has SUCCEEDED
            # (accepted by the device and its reply delivered, i.e. not lost and not answered with an error)
            for e in later:
                if e.get("ptype") == rc.T_HANDSHAKE_REQ and e["ok"] and not e.get("lost") and e.get("token") == run.token:
                    break
                if e.get("ptype") == rc.T_ENC_REQ:
                    out.append(("I4 data written after the authentication lifetime without a new successful handshake", f"conn {e['conn']}"))
                    break
    # I5
    for m in run.marks:
        oc = m.get("outcome")
        if oc in ("ok", "jumped", "CancelledError", "TimeoutError", "ProtocolError", "AuthenticationError"):
            continue
        e = m.get("exc")
        if isinstance(e, (ProtocolError, TimeoutError)):
            continue
        out.append((f"I5 {oc} escaped {m['ev'][0]}[{m['ev'][1]}]", str(e)[:100]))
    if run.outcome[0] != "ok":
        out.append((f"I5 driver ended with {exc_class(run.outcome)}", str(run.outcome[1])[:100]))
    errs = run.w.loop_errors()
    if errs:
        out.append(("I5 exception in an event-loop callback", errs[0]))
    return out


# ---------------------------------------------------------------- fingerprint
def fp(obj, now: datetime, depth=0, seen=None):
    """Name-agnostic structural fingerprint (sorted multiset of abstracted primitive values)."""
    if seen is None:
        seen = set()
    if obj is None or isinstance(obj, (bool, str)):
        return obj
    if isinstance(obj, int):
        return obj if obj < 2 else "2+"
    if isinstance(obj, float):
        return round(obj, 6)
    if isinstance(obj, (bytes, bytearray)):
        return "b:" + hashlib.sha256(bytes(obj)).hexdigest()[:8]
    if isinstance(obj, datetime):
        # remaining time matters for what a further (partial) clock jump does: bucket it on the lifetime scale
        r = (obj - now).total_seconds()
        # ... and on the scale of the 7 h / 12 h jumps (whether one more 7 h jump crosses it)
        return ("past" if r <= 0 else ("in<%d" % (int(r // (LIFETIME * 0.2)) + 1)) if r <= LIFETIME else
                "in<7h" if r <= 7 * 3600 else "in<12h" if r <= 12 * 3600 + 5 else "far")
    if isinstance(obj, timedelta):
        return obj.total_seconds()
    if isinstance(obj, SimTcp):
        return ("transport", obj.is_closing())
    if isinstance(obj, asyncio.Queue):
        return ("queue", tuple(fp(x, now, depth + 1, seen) for x in obj._queue))
    if isinstance(obj, (list, tuple, collections.deque)):
        return tuple(fp(x, now, depth + 1, seen) for x in obj)
    if id(obj) in seen or depth > 4:
        return type(obj).__name__
    if hasattr(obj, "__dict__"):
        seen.add(id(obj))
        vals = [repr(fp(v, now, depth + 1, seen)) for v in vars(obj).values()]
        return (type(obj).__name__, tuple(sorted(vals)))
    return type(obj).__name__


def fingerprint(run: Run):
    from ..harness import VDateTime
    now = VDateTime.now(__import__("datetime").timezone.utc)
    live = run.live_conn()
    devside = None
    if live is not None:
        c = run.w.net.conns[live]
        age = run.w.now() - c.opened_at
        hs = [x["t"] for x in run.dev.rx if x["conn"] == live and x.get("ptype") == rc.T_HANDSHAKE_REQ and x["ok"] and not x.get("lost")]
        hs_age = (run.w.now() - hs[-1]) if hs else -1.0
        devside = (c.state.get("session_key") is not None, min(c.state.get("accepted", 0), 2),
                   min(int(age // (LIFETIME * 0.2)), 6),      # how old the live connection really is
                   -1 if hs_age < 0 else min(int(hs_age // (3.5 * 3600)), 4))   # ... and its latest accepted handshake
    return (fp(run.lan, now), devside, run.life)


# ---------------------------------------------------------------- search
def menu(hist, run_with_trace: Run):
    evs = []
    authed_once = any(e[0] == "auth" for e in hist)
    for ev in BASE_EVENTS:
        if ev[0] == "send" and not authed_once:
            continue
        if ev in (("jump", "life"), ("jump", "part")) and not run_with_trace.life:
            continue
        if ev[0] == "jump" and ev[1] not in ("part", "7h") and hist and hist[-1][0] == "jump" and hist[-1] == ev:
            continue
        evs.append(ev)
    if authed_once:
        for t in run_with_trace.cancel_points():
            evs.append(("send", "cancel", t))
        for t in getattr(run_with_trace, "auth_cancel_points", []):
            evs.append(("auth", "cancel-auth", t))
    return evs


def check_state(st: Stats, hist, life, want_menu=True):
    """Build the state for `hist`, run the monitor, return (fingerprint, menu)."""
    authed_once = any(e[0] == "auth" for e in hist)
    run = Run(hist, life)
    try:
        viol = monitor(run)
        fpr = fingerprint(run)
        outcomes = tuple(m.get("outcome") for m in run.marks)
    finally:
        run.close()
    for sig, detail in viol:
        st.violation(sig, {"life": life, "hist": [list(e) for e in hist]}, "invariant holds", detail, f"outcomes={outcomes}")
    evs = None
    if want_menu:
        if authed_once:
            tr = Run(hist, life, trace_extra_send=True)
            tr2 = Run(hist, life, trace_extra_send="auth")
            try:
                tr.auth_cancel_points = tr2.cancel_points()
                evs = menu(hist, tr)
            finally:
                tr.close()
                tr2.close()
        else:
            class _R:  # menu without cancel points
                pass
            r = _R()
            r.life = life
            r.cancel_points = lambda: []
            evs = menu(hist, r)
    return fpr, evs, outcomes


def run_tree(st: Stats, life, part, nparts, depth):
    """Full history tree, no de-duplication.  Sharded on the first two events."""
    det = Determinism(first=2, every=401)
    idx = 0

    def rec(hist):
        nonlocal idx
        fpr, evs, outcomes = check_state(st, hist, life, want_menu=len(hist) < depth)
        if det.due():
            f2, _, o2 = check_state(Stats(), hist, life, want_menu=False)
            det.check((fpr, outcomes), (f2, o2), hist)
        st.state(fpr)
        st.ev(("tree", life, tuple(hist)), "/".join(str(o) for o in outcomes[-2:]), len(hist) > 0,
              sample=None if len(hist) != 3 or len(st.samples) > 1 else {"life": life, "hist": [list(e) for e in hist], "outcomes": list(outcomes)})
        if len(hist) >= depth:
            return
        for ev in evs:
            if len(hist) == 1:
                idx += 1
                if idx % nparts != part:
                    continue
            st.transitions += 1
            rec(hist + [ev])

    if part == 0:
        pass
    rec([])
    st.reruns += det.reruns


def run_bfs(st: Stats, life, depth):
    seen = set()
    frontier = collections.deque([[]])
    maxd = 0
    while frontier:
        hist = frontier.popleft()
        fpr, evs, outcomes = check_state(st, hist, life, want_menu=len(hist) < depth)
        k = h8(fpr)
        st.ev(("bfs", life, tuple(hist)), "/".join(str(o) for o in outcomes[-2:]), len(hist) > 0)
        if k in seen:
            continue
        seen.add(k)
        st.state(fpr)
        maxd = max(maxd, len(hist))
        if len(hist) >= depth:
            continue
        for ev in evs:
            st.transitions += 1
            frontier.append(hist + [ev])
    st.extra[f"bfs_states_life{life}"] = len(seen)
    st.notes[f"bfs_max_depth_life{life}"] = maxd
    if frontier or maxd >= depth:
        st.notes[f"bfs_life{life}"] = f"depth bound {depth} reached before fixpoint" if maxd >= depth else "fixpoint"


def run_long(st: Stats, n):
    w = World()
    token, key = creds()
    dev = SimDevice(version=3, token=token, key=key, device_id=0xABCDEF)
    w.net.listen(IP, PORT, dev)
    lan = LAN(IP, PORT, 0xABCDEF)

    async def drive():
        await lan.authenticate(token, key)
        for i in range(n):
            if i == 2:
                # one transmission early in the session goes unanswered (the retransmission is answered): a request id that
                # was never answered must not matter one counter revolution later
                def ignore_once(conn, p, entry):
                    dev.on_enc_request = None
                dev.on_enc_request = ignore_once
            r = await lan.send(CMD)
            if len(r) != 1:
                return i, r
        if n < 66000:
            # push the connection's packet counter past 2^16 the cheap way (packets written back to back, answers not awaited)
            dev.on_enc_request = lambda conn, p, entry: None
            for i in range(66000 - n):
                lan._protocol.write(CMD)
            dev.on_enc_request = None
            await asyncio.sleep(0.05)
        # the authentication lifetime lapses on this long-lived connection: renewal handshake, then more data
        w.loop.jump(13 * 3600)
        for i in range(5):
            r = await lan.send(CMD)
            if len(r) != 1:
                return n + i, r
        return n, None

    try:
        out = w.run(drive(), budget=7200 if n > 10000 else 100)
        case = {"long": n}
        if out[0] != "ok":
            st.violation(f"long session: {exc_class(out)} after {len(dev.rx)} packets", case, "no exception", str(out[1])[:200])
        elif out[1][0] != n:
            st.violation("long session: send returned wrong frames", case, 1, len(out[1][1]))
        prev = None
        nconn = len(w.net.conns)
        if nconn != 1:
            st.violation("long session: reconnected", case, 1, nconn)
        if sum(1 for e in dev.rx if e.get("ptype") == rc.T_HANDSHAKE_REQ) != 2:
            st.violation("long session: expected exactly one renewal handshake after the 12 h jump", case, 2,
                         sum(1 for e in dev.rx if e.get("ptype") == rc.T_HANDSHAKE_REQ))
        for e in dev.rx:
            c = e.get("counter")
            if not e["ok"]:
                st.violation("long session: packet rejected by the device", case, "accepted", e.get("error"))
                break
            if prev is not None and c != prev + 1 and not (c == 0 and prev + 1 in WRAPS):
                st.violation(f"long session: counter step {prev}->{c}", case, prev + 1, c)
                break
            prev = c
            st.transitions += 1
        st.ev(("long", n), "ok" if out[0] == "ok" else exc_class(out), True, sample={"long_session_packets": len(dev.rx)})
        st.extra["long_session_packets"] = len(dev.rx)
    finally:
        w.close()


def run_shard(shard, tier) -> Stats:
    st = Stats()
    kind, life, part, nparts = shard
    d = depths(tier)
    if kind == "tree":
        run_tree(st, life, part, nparts, d["tree"])
    elif kind == "bfs":
        run_bfs(st, life, d["bfs"])
    else:
        run_long(st, d["long"])
    st.traces = st.evaluations
    return st


def replay(case):
    if "long" in case:
        st = Stats()
        run_long(st, case["long"])
        return sorted(st.viol_counts)
    hist = [tuple(e) for e in case["hist"]]
    run = Run(hist, case["life"])
    try:
        return {"outcomes": [m.get("outcome") for m in run.marks], "violations": monitor(run),
                "wire": [(round(e["t"], 3), e["conn"], e.get("ptype"), e["ok"], e.get("counter")) for e in run.dev.rx]}
    finally:
        run.close()
