"""C06 - V3 handshake: key agreement when genuine, sound rejection otherwise."""
from __future__ import annotations

from msmart.device import AirConditioner as AC
from msmart.lan import AuthenticationError

from .. import refcodec as rc
from ..harness import Determinism, World, exc_class, filler
from ..report import Stats
from ..simdev import SimDevice

PROPERTY = "C06"
LEVEL = "fault_enumeration"
RULE = ("fault enumeration on the handshake reply: for each (token,key,nonce) triple (two of them chosen so that the genuine reply contains the bytes 83 70) and key form (bytes / hex string), on a "
        "fresh client, after a previous successful authentication with other credentials, and after an expired authentication with the same credentials: the genuine reply (at once, and as the answer to the retransmission after 1 / 2 unanswered requests); every "
        "single-bit flip of the 64-byte body; every single-bit flip of marker, size, magic and type nibble; every body "
        "length 0..80 != 64; 1..15 surplus bytes announced in the header's padding nibble; every packet type nibble in place of the reply; replies computed under 4 other keys. "
        "One execution = Device.authenticate + a following refresh + a further, genuinely answered authenticate and refresh against the reference device; the device-side wire "
        "log is the observable. A case is (triple, form, scenario, fault); non-trivial = every case (genuine included)")
ASSUMPTIONS = [
    "the reply's 2-byte counter and the padding-count nibble are not part of the proof of key knowledge and are not flipped (DESIGN C06)",
    "after a previous successful authentication the old session stays usable, so 'stays unauthenticated' is asserted only on fresh clients",
]
IP, PORT = "10.0.0.6", 6444


def _marker_nonce(label: str, key: bytes, where) -> bytes:
    """A device nonce whose GENUINE reply contains the V3 start-of-packet marker 83 70 at a position accepted by `where`."""
    for i in range(400000):
        nonce = filler(f"{label}/{i}", 32)
        k = rc.handshake_reply_body(key, nonce).find(b"\x83\x70")
        if k >= 0 and where(k):
            return nonce
    raise RuntimeError("no nonce found")


_TRIPLES = []


def triples():
    if not _TRIPLES:
        _TRIPLES.extend(_triples())
    return _TRIPLES


def _triples():
    f = filler
    return [
        (f("c06/t0", 64), f("c06/k0", 32), f("c06/n0", 32)),
        (bytes(64), bytes(32), bytes(32)),
        (b"\xff" * 64, b"\xff" * 32, b"\xff" * 32),
        (b"\x83\x70" * 32, b"\x5a\x5a" * 16, b"\x83\x70" * 16),
        (f("c06/t4", 64), f("c06/k4", 32), f("c06/k4", 32)),           # nonce == key: session key all zero
        (f("c06/t5", 64), bytes(range(32)), bytes(range(32, 64))),
        (f("c06/t6", 64), f("c06/k6", 32), bytes(32)),
        (bytes(range(64)), f("c06/k7", 32), b"\xff" * 32),
        (f("c06/t8", 64), b"\x00" * 31 + b"\x01", f("c06/n8", 32)),
        (f("c06/t9", 64), f("c06/k9", 32), f("c06/n9", 32)),
        # credentials whose first / last bytes are ASCII white space or other "text-like" values
        (b"\x20" + f("c06/t10", 62) + b"\x0a", b"\x09" + f("c06/k10", 30) + b"\x0d", b"\x20" * 32),
        (b"\x0b" * 64, b"\x20" * 31 + b"\x0c", f("c06/n11", 32)),
        (b"0" + f("c06/t12", 62) + b"\x00", b"\x00" + f("c06/k12", 30) + b"\x20", b"\x0a" * 32),
        # genuine replies that happen to contain the stream's start-of-packet marker (in the encrypted half / in the hash half)
        (f("c06/t13", 64), f("c06/k13", 32), _marker_nonce("c06/n13", f("c06/k13", 32), lambda k: k < 31)),
        (f("c06/t14", 64), f("c06/k14", 32), _marker_nonce("c06/n14", f("c06/k14", 32), lambda k: k >= 32)),
    ]


def faults():
    out = [("genuine",)]
    out += [("bodybit", b) for b in range(512)]
    out += [("hdrbit", b) for b in list(range(0, 40)) + [40, 41, 42, 43]]   # bytes 0..4 all bits, byte 5 low nibble
    out += [("length", n) for n in range(0, 81) if n != 64]
    out += [("padded", n) for n in range(1, 16)]     # n extra bytes, announced in the header's padding nibble
    out += [("type", t) for t in range(16) if t != 1]
    out += [("otherkey", i) for i in range(4)]
    # genuine, but the first 1 / 2 handshake requests of the call go unanswered (the genuine reply answers the retransmission)
    # (appended last: the quick tier's slices of this list stay what they were)
    out += [("genuine-late", 1), ("genuine-late", 2)]
    return out


def bounds(tier):
    return {"triples": len(triples()), "faults_per_triple": str(len(faults())) + (" (first 3 triples; a 1/23 slice + genuine for the others)" if tier != "thorough" else ""),
            "key_forms": "bytes/bytes, hex/hex (all triples), hex/bytes and bytes/hex (4 triples)", "scenarios": ["fresh", "after-previous-auth", "same credentials, authentication expired", "live connection with stale data queued",
                          "expired authentication on a connection that carried > 65536 packets"]}


def shards(tier):
    nt = len(triples())
    out = []
    for t in range(nt):
        for form in (0, 1):
            for scen in (0, 1, 2, 3):
                out.append((t, form, scen, (t >= 3 or scen == 3) and tier != "thorough"))
    out.append((0, 0, 4, True))
    out.append((9, 1, 4, True))
    for t in (0, 1, 5, 10):
        for form in (2, 3):
            for scen in (0, 2):
                out.append((t, form, scen, True))
    return out


def other_keys():
    return [bytes(32), b"\xff" * 32, filler("c06/ok2", 32), filler("c06/ok3", 32)]


def mutate(reply: bytes, fault, key: bytes, nonce: bytes) -> bytes:
    kind = fault[0]
    if kind == "genuine":
        return reply
    if kind == "bodybit":
        m = bytearray(reply)
        m[8 + fault[1] // 8] ^= 1 << (fault[1] % 8)
        return bytes(m)
    if kind == "hdrbit":
        m = bytearray(reply)
        m[fault[1] // 8] ^= 1 << (fault[1] % 8)
        return bytes(m)
    if kind == "length":
        body = (reply[8:] + filler("c06/extra", 32))[:fault[1]]
        return rc.v3_build_plain(rc.T_HANDSHAKE_RESP, 0, body)
    if kind == "padded":
        return rc.v3_build_plain(rc.T_HANDSHAKE_RESP, 0, reply[8:] + filler("c06/pad", fault[1]), pad=fault[1])
    if kind == "type":
        m = bytearray(reply)
        m[5] = (m[5] & 0xF0) | fault[1]
        return bytes(m)
    if kind == "otherkey":
        ok = other_keys()[fault[1]]
        if ok == key:
            ok = bytes(31) + b"\x07"
        return rc.v3_build_plain(rc.T_HANDSHAKE_RESP, 0, rc.handshake_reply_body(ok, nonce))
    raise ValueError(kind)


def execute(tidx: int, form: int, scen: int, fault):
    token, key, nonce = triples()[tidx]
    prev_token, prev_key = filler("c06/prevtok", 64), filler("c06/prevkey", 32)
    w = World()
    state = {"armed": False, "phase": "pre"}

    def script(req):
        if req.kind == "handshake" and req.ok and state["armed"] and req.frame == token and fault[0] == "genuine-late":
            state["hs"] = state.get("hs", 0) + 1
            if state["hs"] <= fault[1]:
                return
        elif req.kind == "handshake" and req.ok and state["armed"] and req.frame == token:
            # every reply during the call under test is faulty (retransmissions included)
            req.send(mutate(req.responses[0], fault, key, nonce))
            return
        for p in req.responses:
            req.send(p)

    dev = SimDevice(version=3, token=token, key=key, device_id=99, script=script, nonces=lambda n: nonce)
    dev.extra_creds[prev_token] = prev_key
    w.net.listen(IP, PORT, dev)
    ac = AC(ip=IP, port=PORT, device_id=99)
    marks = {}

    async def drive():
        if scen == 1:
            await ac.authenticate(prev_token, prev_key)
        if scen == 2:
            # authenticated with the same credentials, then the 12 h authentication lifetime lapses
            await ac.authenticate(token, key)
            await ac.refresh()
            w.loop.jump(13 * 3600)
        if scen == 3:
            # live authenticated connection with unread data queued (an unsolicited encrypted report and a stray,
            # late handshake reply), then the user authenticates again
            await ac.authenticate(token, key)
            await ac.refresh()
            conn = w.net.conns[-1]
            conn.deliver(dev.wrap(conn, dev.ac.report(0x05, 0x31)), 0.001)
            conn.deliver(rc.v3_build_plain(rc.T_HANDSHAKE_RESP, 0, rc.handshake_reply_body(key, filler("c06/stale-nonce", 32))), 0.002)
            import asyncio as _a
            await _a.sleep(0.01)
        if scen == 4:
            # a connection that has carried more than 2^16 packets, whose authentication then expires
            await ac.authenticate(token, key)
            await ac.refresh()
            dev.on_enc_request = lambda conn, p, entry: None
            for _ in range(66000):
                ac._lan._protocol.write(b"\xaa\x01\x02")
            dev.on_enc_request = None
            import asyncio as _a
            await _a.sleep(0.05)
            w.loop.jump(13 * 3600)
        before = (ac.token, ac.key)
        marks["start"] = len(dev.rx)
        state["armed"] = True
        try:
            if form == 0:
                await ac.authenticate(token, key)
            elif form == 1:
                await ac.authenticate(token.hex(), key.hex())
            elif form == 2:
                await ac.authenticate(token.hex(), key)          # mixed forms: each credential is converted on its own
            else:
                await ac.authenticate(token, key.hex())
            res = "ok"
        except AuthenticationError:
            res = "AuthenticationError"
        except BaseException as e:  # noqa: BLE001
            res = type(e).__name__
        marks["end"] = len(dev.rx)
        after = (ac.token, ac.key)
        state["armed"] = False
        try:
            await ac.refresh()
            ref = "ok"
        except BaseException as e:  # noqa: BLE001
            ref = type(e).__name__
        online = ac.online
        marks["retry_from"] = len(dev.rx)
        # whatever happened: a further attempt that is answered genuinely succeeds
        try:
            await ac.authenticate(token, key)
            await ac.refresh()
            retry = "ok" if ac.online else "offline"
        except BaseException as e:  # noqa: BLE001
            retry = type(e).__name__
        marks["retry"] = retry
        return res, before, after, ref, online

    try:
        out = w.run(drive())
        if out[0] != "ok":
            return (exc_class(out),), dev, marks
        return out[1], dev, marks
    finally:
        w.close()


def judge(st: Stats, case, obs, dev, marks, tidx, scen, fault):
    token, key, nonce = triples()[tidx]
    if len(obs) == 1:
        st.violation(f"driver failed: {obs[0]}", case, "completes", obs[0])
        return obs[0]
    res, before, after, ref, online = obs
    during = dev.rx[marks["start"]:marks["end"]]
    post = dev.rx[marks["end"]:marks.get("retry_from", len(dev.rx))]
    # (a reply whose marker / size field is damaged desynchronises the byte stream of that connection; what a later attempt on
    # the same connection then sees is not something C06 speaks about)
    desync = fault[0] == "hdrbit" and fault[1] < 32
    if marks.get("retry") != "ok" and not desync:
        st.violation(f"{'genuine' if fault[0].startswith('genuine') else 'after a faulty reply'}: a following genuine authentication fails ({marks.get('retry')})"[:90],
                     case, "authenticated and exchanging", marks.get("retry"))
    genuine = fault[0] in ("genuine", "genuine-late")
    if genuine:
        prob = None
        if res != "ok":
            prob = f"genuine reply rejected: {res}"
        elif after != (token.hex(), key.hex()):
            prob = "token/key not stored after success"
        elif ref != "ok" or not online:
            prob = f"no encrypted exchange after success (refresh={ref}, online={online})"
        elif not any(e.get("ptype") == rc.T_ENC_REQ and e["ok"] for e in post):
            prob = "device accepted no data packet under its session key"
        if prob:
            st.violation("genuine: " + prob.split(":")[0].split(" (")[0], case, "authenticated and exchanging", prob)
        return "authenticated" if not prob else "bad"
    prob = None
    if res != "AuthenticationError":
        prob = f"outcome {res}"
    elif after != before:
        prob = "stored token/key replaced"
    else:
        for e in during:
            if e.get("ptype") != rc.T_HANDSHAKE_REQ or e.get("token") != token:
                prob = "something other than a handshake request with the token was sent"
                break
    if prob is None and scen in (0, 2, 4):  # scen 1/3: an older session exists and stays usable
        # session must still be unauthenticated: no data packet may precede a new handshake request
        for e in post:
            if e.get("ptype") == rc.T_HANDSHAKE_REQ:
                break
            if e.get("ptype") == rc.T_ENC_REQ:
                prob = "data sent on a session that must be unauthenticated"
                break
        if ref != "ok":
            prob = prob or f"refresh after failed authentication raised {ref}"
    if prob:
        fk = fault[0] if fault[0] != "type" else f"type={fault[1]}"
        st.violation(f"{fk}: {prob.split(' (')[0]}", case, "AuthenticationError, nothing stored, only handshake requests", prob,
                     f"res={res} before={before} after={after} refresh={ref}")
    return res if not prob else "bad"


def run_shard(shard, tier) -> Stats:
    tidx, form, scen, light = shard
    st = Stats()
    det = Determinism(first=3, every=211)
    fl = faults()
    if light:
        # quick tier: for the extra credential triples run the genuine reply and a thin slice of the faults
        fl = [f for i, f in enumerate(fl) if f[0].startswith("genuine") or i % (23 if scen != 4 else 331) == tidx % 23]
    for fault in fl:
        case = {"triple": tidx, "form": form, "scenario": scen, "fault": list(fault)}
        obs, dev, marks = execute(tidx, form, scen, fault)
        if det.due() and scen != 4:
            o2, _, _ = execute(tidx, form, scen, fault)
            det.check(obs, o2, case)
        oc = judge(st, case, obs, dev, marks, tidx, scen, fault)
        st.ev((tidx, form, scen, fault), f"{fault[0]}->{oc}", True,
              sample=None if fault not in (("genuine",), ("bodybit", 100)) or form or scen else
              {**case, "handshake_rx": [e["raw"].hex()[:40] for e in dev.rx[:2]]})
    st.reruns += det.reruns
    return st


def replay(case):
    st = Stats()
    fault = tuple(case["fault"])
    obs, dev, marks = execute(case["triple"], case["form"], case["scenario"], fault)
    oc = judge(st, case, obs, dev, marks, case["triple"], case["scenario"], fault)
    return {"outcome": oc, "obs": str(obs), "violations": sorted(st.viol_counts)}
