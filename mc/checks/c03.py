"""C03 - V2 packet integrity: altered or truncated packets rejected, never mis-decoded."""
from __future__ import annotations

from msmart.lan import LAN, ProtocolError, _Packet

from .. import alphabet as al
from .. import refcodec as rc
from ..harness import Determinism, World, exc_class
from ..report import Stats
from ..simdev import ScriptPeer

PROPERTY = "C03"
LEVEL = "fault_enumeration"
RULE = ("fault enumeration over authentic reference-built reply packets: every single-bit flip at every bit position and "
        "every truncation length through LAN.send on the simulated wire (followed by an honest exchange; every 5th flip also as a packet that is NOT the awaited "
        "reply: queued while the connection idles, or right behind the authentic reply), every single-byte "
        "substitution (all 255 values), every position pair x {01,80,FF}^2 and every 2/4/8/16/32-byte window overwritten with 00/FF/complement at the _Packet.decode seam; the same packets followed by "
        "further bytes in the segment; every bit flip of the inner packet inside an authentic V3 envelope; runs of 40 damaged replies in a row on one "
        "LAN object; every 5th flip decoded while a discovery is in progress in the same process. "
        "A case is (frame length, fault); all are non-trivial (each changes the packet)")
ASSUMPTIONS = ["authentic packets are built by the reference codec", "truncation to zero bytes is not a TCP delivery and is excluded"]
IP, PORT = "10.0.0.9", 6444
CMD = bytes.fromhex("aa21ac8d000000000003418100ff03ff000200000000000000000000000003016971")


def lengths(tier):
    return [0, 1, 15, 16, 17, 31, 32, 33, 100, 255] if tier == "thorough" else [0, 15, 16, 33]


def bounds(tier):
    return {"frame_lengths": lengths(tier), "bit_flips": "all", "truncations": "1..n-1",
            "substitutions": "all 255 values x every byte",
            "pairs": "all position pairs x {01,80,FF}^2 on the 72-byte packet",
            "windows": "every offset x widths {2,4,8,16,32} x {00, FF, complement}"}


def authentic(n: int) -> tuple[bytes, bytes]:
    frame = al.payload("c03", n, 4)
    return frame, rc.v2_build(frame, 0x1122334455, timestamp=bytes([9, 8, 7, 6, 5, 4, 24, 20]), magic=b"\x20\x80",
                              message_id=b"\x01\x02\x03\x04", tail=bytes(range(1, 13)))


def shards(tier):
    out = []
    for n in lengths(tier):
        out.append(("bits", n, 0))
        out.append(("trunc", n, 0))
        out.append(("subst", n, 0))
        out.append(("fill", n, 0))
    for i in range(8):
        out.append(("pairs", 0, i))
    for n in lengths(tier):
        out.append(("tail", n, 0))
    for n in (lengths(tier) if tier == "thorough" else [15, 33]):
        out.append(("v3bits", n, 0))
    for n in lengths(tier)[:2]:
        out.append(("streak", n, 0))
        out.append(("discovering", n, 0))
    return out


def wire(corrupt: bytes, good_frame: bytes, authentic_first: bytes = None):
    """[LAN.send answered by the authentic packet,] LAN.send with a corrupted reply, then a send answered honestly."""
    w = World()
    good = rc.v2_build(good_frame, 0x1122334455)
    k = 1 if authentic_first is not None else 0

    def on_data(conn, data, i):
        conn.deliver(authentic_first if i < k else corrupt if i == k else good, 0.01)

    w.net.listen(IP, PORT, ScriptPeer(on_data))
    lan = LAN(IP, PORT, 0x1122334455)

    async def drive():
        if k:
            try:
                await lan.send(CMD)
            except BaseException:  # noqa: BLE001
                pass
        try:
            r1 = ("ok", await lan.send(CMD))
        except BaseException as e:  # noqa: BLE001
            r1 = (type(e).__name__, str(e)[:60])
        try:
            r2 = ("ok", await lan.send(CMD))
        except BaseException as e:  # noqa: BLE001
            r2 = (type(e).__name__, str(e)[:60])
        return r1, r2

    try:
        out = w.run(drive())
        return out[1] if out[0] == "ok" else ((exc_class(out), ""), ("n/a", ""))
    finally:
        w.close()


def wire_unsolicited(corrupt: bytes, good_frame: bytes, mode: str):
    """The damaged packet is not the awaited reply: it arrives while the connection idles ("queued"), or right behind
    the authentic reply of an exchange ("behind").  It must still surface as a ProtocolError, not vanish."""
    import asyncio
    w = World()
    good = rc.v2_build(good_frame, 0x1122334455)
    n = {"i": 0}

    def on_data(conn, data, i):
        n["i"] += 1
        if mode == "behind" and n["i"] == 2:
            conn.deliver_many([good, corrupt], 0.01)
        else:
            conn.deliver(good, 0.01)

    w.net.listen(IP, PORT, ScriptPeer(on_data))
    lan = LAN(IP, PORT, 0x1122334455)

    async def drive():
        res = []
        await lan.send(CMD)
        if mode == "queued":
            w.net.conns[-1].deliver(corrupt, 0.001)
            await asyncio.sleep(0.01)
        for _ in range(3):
            try:
                res.append(("ok", await lan.send(CMD)))
            except BaseException as e:  # noqa: BLE001
                res.append((type(e).__name__, str(e)[:60]))
        return res

    try:
        out = w.run(drive())
        return out[1] if out[0] == "ok" else [(exc_class(out), "")]
    finally:
        w.close()


def wire_streak(corrupts: list, good_frame: bytes):
    """ONE LAN object meets a long run of damaged replies (one per exchange), then an honest one."""
    w = World()
    good = rc.v2_build(good_frame, 0x1122334455)
    n = {"i": -1}

    def on_data(conn, data, i):
        n["i"] += 1
        conn.deliver(corrupts[n["i"]] if n["i"] < len(corrupts) else good, 0.01)

    w.net.listen(IP, PORT, ScriptPeer(on_data))
    lan = LAN(IP, PORT, 0x1122334455)

    async def drive():
        res = []
        for _ in range(len(corrupts) + 1):
            try:
                res.append(("ok", await lan.send(CMD, retries=1)))
            except BaseException as e:  # noqa: BLE001
                res.append((type(e).__name__, str(e)[:40]))
        return res

    try:
        out = w.run(drive())
        return out[1] if out[0] == "ok" else [(exc_class(out), "")]
    finally:
        w.close()


def decode_while_discovering(packets: list):
    """_Packet.decode of damaged packets while a discovery is in progress in the same process."""
    import asyncio
    from msmart.discover import Discover
    w = World()

    async def drive():
        task = asyncio.ensure_future(Discover.discover(auto_connect=False, timeout=3))
        await asyncio.sleep(1.0)
        res = [direct(p)[0] for p in packets]
        await task
        return res

    try:
        out = w.run(drive())
        return out[1] if out[0] == "ok" else [exc_class(out)]
    finally:
        w.close()


def wire_v3(inner_corrupt: bytes, good_frame: bytes):
    """Authenticated V3 session; the reply's inner V2 packet is damaged before the device encrypts and tags it."""
    from ..simdev import SimDevice
    from ..harness import filler
    w = World()
    token, key = filler("c03/tok", 64), filler("c03/key", 32)
    n = {"i": 0}

    def script(req):
        if req.kind == "handshake":
            for p in req.responses:
                req.send(p)
            return
        n["i"] += 1
        req.send(req.dev.wrap_v3(req.conn, inner_corrupt if n["i"] == 1 else rc.v2_build(good_frame, 0x1122334455)))

    dev = SimDevice(version=3, token=token, key=key, device_id=0x1122334455, script=script)
    w.net.listen(IP, PORT, dev)
    lan = LAN(IP, PORT, 0x1122334455)

    async def drive():
        await lan.authenticate(token, key)
        try:
            r1 = ("ok", await lan.send(CMD))
        except BaseException as e:  # noqa: BLE001
            r1 = (type(e).__name__, str(e)[:60])
        try:
            r2 = ("ok", await lan.send(CMD))
        except BaseException as e:  # noqa: BLE001
            r2 = (type(e).__name__, str(e)[:60])
        return r1, r2

    try:
        out = w.run(drive())
        return out[1] if out[0] == "ok" else ((exc_class(out), ""), ("n/a", ""))
    finally:
        w.close()


def direct(corrupt: bytes, authentic_first: bytes = None):
    if authentic_first is not None:
        # history: the authentic packet was received (and accepted) before the damaged copy arrives
        try:
            _Packet.decode(authentic_first)
        except Exception:  # noqa: BLE001 - judged elsewhere (C02)
            pass
    try:
        return ("ok", _Packet.decode(corrupt))
    except ProtocolError:
        return ("ProtocolError", None)
    except Exception as e:  # noqa: BLE001
        return (type(e).__name__, None)


def field(i: int, n: int) -> str:
    if i < 2:
        return "marker"
    if i < 4:
        return "msgtype"
    if i < 6:
        return "length"
    if i < 40:
        return "header"
    if i >= n - 16:
        return "signature"
    return "payload"


def run_shard(shard, tier) -> Stats:
    kind, n, part = shard
    st = Stats()
    det = Determinism(first=3, every=499)
    World().close()
    frame, pkt = authentic(n)
    if kind == "bits":
        for bit in range(len(pkt) * 8):
            m = bytearray(pkt)
            m[bit // 8] ^= 1 << (bit % 8)
            m = bytes(m)
            case = {"kind": kind, "len": n, "bit": bit}
            r1, r2 = wire(m, frame)
            if det.due():
                det.check((r1, r2), wire(m, frame), case)
            if r1[0] != "ProtocolError":
                st.violation(f"bitflip field={field(bit // 8, len(pkt))} -> {r1[0]}", case, "ProtocolError", r1)
            if bit % 3 == 0:
                p1, p2 = wire(m, frame, pkt)
                if p1[0] != "ProtocolError":
                    st.violation(f"bitflip after an authentic exchange field={field(bit // 8, len(pkt))} -> {p1[0]}", {**case, "primed": True},
                                 "ProtocolError", p1)
            if r2 != ("ok", [frame]):
                st.violation(f"exchange after rejected packet -> {r2[0]}", case, ("ok", [frame]), r2)
            if bit % 5 == 0:
                for mode in ("queued", "behind"):
                    res = wire_unsolicited(m, frame, mode)
                    kinds = [r[0] for r in res]
                    if "ProtocolError" not in kinds[:2] or any(k not in ("ok", "ProtocolError") for k in kinds) or kinds[-1] != "ok":
                        st.violation(f"damaged packet {mode} (not the awaited reply) field={field(bit // 8, len(pkt))}: no protocol error / no recovery",
                                     {**case, "mode": mode}, "ProtocolError from the exchange that meets it, then normal service", kinds)
                    elif any(r[0] == "ok" and any(f != frame for f in r[1]) for r in res):
                        st.violation(f"damaged packet {mode}: a frame other than the authentic one was returned", {**case, "mode": mode}, [frame], kinds)
                    st.ev((kind, n, bit, mode), "ProtocolError", True)
            for primed in (None, pkt):
                d = direct(m, primed)
                if d[0] != "ProtocolError":
                    st.violation(f"bitflip(decode{', after the authentic packet' if primed else ''}) field={field(bit // 8, len(pkt))} -> {d[0]}",
                                 {**case, "primed": primed is not None}, "ProtocolError", d)
            st.ev((kind, n, bit), r1[0], True, sample=None if bit != 333 else {**case, "packet": m.hex()})
    elif kind == "streak":
        # repetition bound: the same kind of fault 40 times in a row on one object, then honest service
        for stride in (7, 11, 13):
            muts = []
            for j in range(40):
                m = bytearray(pkt)
                bit = (j * stride * 8 + j) % (len(pkt) * 8)
                m[bit // 8] ^= 1 << (bit % 8)
                muts.append(bytes(m))
            res = wire_streak(muts, frame)
            case = {"kind": kind, "len": n, "stride": stride}
            for j, r in enumerate(res[:-1]):
                if r[0] != "ProtocolError":
                    st.violation(f"streak of damaged replies on one connection object: reply {j + 1 if j < 3 else 'n'} -> {r[0]}", {**case, "index": j},
                                 "ProtocolError", r)
                    break
            if res[-1] != ("ok", [frame]):
                st.violation(f"exchange after a streak of rejected packets -> {res[-1][0]}", case, ("ok", [frame]), res[-1])
            st.ev((kind, n, stride), "ProtocolError", True)
    elif kind == "discovering":
        muts = []
        for bit in range(0, len(pkt) * 8, 5):
            m = bytearray(pkt)
            m[bit // 8] ^= 1 << (bit % 8)
            muts.append(bytes(m))
        res = decode_while_discovering(muts)
        for j, r in enumerate(res):
            if r != "ProtocolError":
                st.violation(f"bitflip decoded while a discovery is running -> {r}", {"kind": kind, "len": n, "index": j}, "ProtocolError", r)
                break
            st.ev((kind, n, j), "ProtocolError", True)
    elif kind == "trunc":
        for k in range(1, len(pkt)):
            case = {"kind": kind, "len": n, "keep": k}
            r1, r2 = wire(pkt[:k], frame)
            if r1[0] != "ProtocolError":
                st.violation(f"truncation -> {r1[0]}", case, "ProtocolError", r1)
            if r2 != ("ok", [frame]):
                st.violation(f"exchange after truncated packet -> {r2[0]}", case, ("ok", [frame]), r2)
            st.ev((kind, n, k), r1[0], True)
    elif kind == "subst":
        masks = range(1, 256)
        for i in range(len(pkt)):
            for mask in masks:
                m = bytearray(pkt)
                m[i] ^= mask
                for primed in (None, pkt):
                    d = direct(bytes(m), primed)
                    if d[0] != "ProtocolError":
                        st.violation(f"substitution{' after the authentic packet' if primed else ''} field={field(i, len(pkt))} -> {d[0]}",
                                     {"kind": kind, "len": n, "pos": i, "xor": mask, "primed": primed is not None}, "ProtocolError", d)
                    st.ev((kind, n, i, mask, primed is not None), d[0], True)
    elif kind == "fill":
        # multi-byte corruption, systematically: every window of 2/4/8/16/32 bytes at every offset overwritten with 00.. / FF.. /
        # its complement (a zeroed or saturated field is what broken firmware and middleboxes actually produce)
        for width in (2, 4, 8, 16, 32):
            for i in range(0, len(pkt) - width + 1):
                for fi, fill in enumerate((b"\x00" * width, b"\xff" * width, bytes(b ^ 0xFF for b in pkt[i:i + width]))):
                    if pkt[i:i + width] == fill:
                        continue
                    m = pkt[:i] + fill + pkt[i + width:]
                    for primed in (None, pkt):
                        d = direct(m, primed)
                        if d[0] != "ProtocolError":
                            st.violation(f"window overwritten{' after the authentic packet' if primed else ''} fields={field(i, len(pkt))}..{field(i + width - 1, len(pkt))} -> {d[0]}",
                                         {"kind": kind, "len": n, "pos": i, "width": width, "fill": fi, "primed": primed is not None}, "ProtocolError", d)
                        st.ev((kind, n, i, width, fi, primed is not None), d[0], True)
    elif kind == "tail":
        # bytes following an authentic packet (padding, garbage, a second packet): never a frame other than the one sent
        from ..harness import filler
        other = rc.v2_build(al.payload("c03/other", 20, 3), 0x99)
        # the payload key is fixed and public, so a peer can append blocks that decrypt to valid PKCS#7 padding
        padblk = rc.ecb_encrypt(rc.ENC_KEY, b"\x10" * 16)
        pad1 = rc.ecb_encrypt(rc.ENC_KEY, filler("c03/p1", 15) + b"\x01")
        tails = [b"\x00", filler("c03/t15", 15), filler("c03/t16", 16), filler("c03/t32", 32), filler("c03/t48", 48), other, pkt,
                 padblk, padblk + filler("c03/t16b", 16), pad1 + filler("c03/t16c", 16), padblk + padblk, filler("c03/t16d", 16) + padblk + bytes(16)]
        for ti, tail in enumerate(tails):
            for via in ("decode", "wire"):
                case = {"kind": kind, "len": n, "tail": ti, "via": via}
                if via == "decode":
                    d = direct(pkt + tail)
                else:
                    d = wire(pkt + tail, frame)[0]
                    d = (d[0], d[1][0] if d[0] == "ok" and d[1] else None)
                if d[0] == "ok" and d[1] != frame:
                    st.violation(f"trailing bytes: a frame other than the authentic one was returned ({via})", case, frame, d[1])
                elif d[0] not in ("ok", "ProtocolError"):
                    st.violation(f"trailing bytes -> {d[0]} ({via})", case, "the frame or ProtocolError", d[0])
                st.ev((kind, n, ti, via), "tail:" + d[0], True)
    elif kind == "v3bits":
        for bit in range(len(pkt) * 8):
            m = bytearray(pkt)
            m[bit // 8] ^= 1 << (bit % 8)
            case = {"kind": kind, "len": n, "bit": bit}
            r1, r2 = wire_v3(bytes(m), frame)
            if r1[0] != "ProtocolError":
                st.violation(f"bitflip inside an authentic V3 envelope field={field(bit // 8, len(pkt))} -> {r1[0]}", case, "ProtocolError", r1)
            if r2 != ("ok", [frame]):
                st.violation(f"exchange after rejected packet (V3) -> {r2[0]}", case, ("ok", [frame]), r2)
            st.ev((kind, n, bit), r1[0], True)
    elif kind == "pairs":
        masks = [0x01, 0x80, 0xFF]
        L = len(pkt)
        for i in range(part, L, 8):
            for j in range(i + 1, L):
                for mi in masks:
                    for mj in masks:
                        m = bytearray(pkt)
                        m[i] ^= mi
                        m[j] ^= mj
                        d = direct(bytes(m))
                        if d[0] != "ProtocolError":
                            st.violation(f"pair fields={field(i, L)}+{field(j, L)} -> {d[0]}",
                                         {"kind": kind, "len": n, "pos": [i, j], "xor": [mi, mj]}, "ProtocolError", d)
                        st.ev((kind, i, j, mi, mj), d[0], True)
    st.reruns += det.reruns
    return st


def replay(case):
    frame, pkt = authentic(case["len"])
    m = bytearray(pkt)
    primed = pkt if case.get("primed") else None
    if case["kind"] in ("streak", "discovering"):
        return sorted(run_shard((case["kind"], case["len"], 0), "quick").viol_counts)
    if case["kind"] == "tail":
        return {"note": "see run_shard('tail')", "violations": sorted(run_shard(("tail", case["len"], 0), "quick").viol_counts)}
    if case["kind"] == "v3bits":
        m[case["bit"] // 8] ^= 1 << (case["bit"] % 8)
        return {"wire_v3": wire_v3(bytes(m), frame)}
    if case["kind"] == "bits":
        m[case["bit"] // 8] ^= 1 << (case["bit"] % 8)
        if case.get("mode"):
            return {"wire_unsolicited": wire_unsolicited(bytes(m), frame, case["mode"])}
    elif case["kind"] == "trunc":
        m = m[:case["keep"]]
    elif case["kind"] == "subst":
        m[case["pos"]] ^= case["xor"]
    elif case["kind"] == "fill":
        i, wd = case["pos"], case["width"]
        m[i:i + wd] = (b"\x00" * wd, b"\xff" * wd, bytes(b ^ 0xFF for b in pkt[i:i + wd]))[case["fill"]]
    else:
        for p, x in zip(case["pos"], case["xor"]):
            m[p] ^= x
    return {"wire": wire(bytes(m), frame, primed), "decode": direct(bytes(m), primed)[0]}
