"""C13 - Corrupted responses are rejected and never change state."""
from __future__ import annotations

from msmart.device import AirConditioner as AC

from .. import refcodec as rc
from ..harness import Determinism
from ..refdevice import RefAC, cap_record
from ..report import Stats
from ..util import Rig

PROPERTY = "C13"
LEVEL = "fault_enumeration"
RULE = ("fault enumeration: for each valid response kind (state, capabilities, properties, energy, humidity; state/energy/humidity also with the frame types of unsolicited reports 04/05/06) every byte position "
        ">= 1 x every substitute value (all 255) without checksum fix-up, and every body byte except the trailing "
        "check byte with the outer checksum recomputed. The mutated frame is the only answer to a refresh (get_capabilities for the "
        "capability frame) of a client holding a known non-default state. An independent oracle decides per frame whether it MUST "
        "be dropped (outer checksum wrong, or non-property body whose check byte is neither CRC-8 nor additive); for those the "
        "exposed state and capability attributes must be unchanged and online/supported False. Frames that by coincidence satisfy "
        "the other accepted check or became property responses carry no expectation and are counted separately. "
        "non-trivial = must-drop cases")
ASSUMPTIONS = ["property responses are exempt from the body check by design (statement)", "one mutated frame per exchange"]

KINDS = ["state", "caps", "props", "energy", "humidity"]


def bounds(tier):
    return {"kinds": KINDS, "substitutes": 255, "positions": "every byte >= 1",
            "fixup_variants": ["none", "outer checksum recomputed (body bytes)"]}


def rich_device() -> RefAC:
    dev = RefAC({"power": True, "mode": 4, "temp": 27.5, "fan": 60, "swing": 0xC, "eco": True, "sleep": True, "humidity": 55,
                 "freeze": True, "purifier": True},
                cap_pages=[[cap_record(0x0212, 1), cap_record(0x0214, 1), cap_record(0x0215, 1), cap_record(0x0210, 7),
                            cap_record(0x0009, 1), cap_record(0x000A, 1), cap_record(0x0225, 0x22, 0x3C, 0x22, 0x3C, 0x22, 0x3C, 1),
                            cap_record(0x0216, 2), cap_record(0x021F, 2)]])
    dev.indoor, dev.outdoor = (0x65, 3), (0x50, 7)
    dev.props[0x0009] = b"\x19"
    dev.props[0x000A] = b"\x32"
    dev.energy = bytes.fromhex("00056792") + bytes(4) + bytes.fromhex("00001514") + bytes.fromhex("000345") + bytes(1)
    dev.humidity_now = 47
    return dev


def valid_frame(kind: str) -> bytes:
    dev = rich_device()
    # a *different* state than the client holds, so that accepting the frame is observable
    dev.state.update(power=False, mode=2, temp=19.0, fan=80, swing=0x3, eco=False, sleep=False, humidity=33, freeze=False)
    dev.indoor, dev.outdoor = (0x5A, 1), (0x40, 2)
    dev.props[0x0009] = b"\x4b"
    dev.props[0x000A] = b"\x01"
    dev.humidity_now = 61
    dev.energy = bytes.fromhex("00012345") + bytes(4) + bytes.fromhex("00000777") + bytes.fromhex("000123") + bytes(1)
    if kind == "state":
        return dev.report(0x03, 9)
    if kind.startswith("state-t"):
        # the same valid state body sent as an unsolicited report / notification (frame type 04, 05, 06, 0A)
        return dev.report(int(kind[-2:], 16), 9)
    if kind.startswith("energy-t"):
        return rc.frame_build(bytes([0xC1, 0x21, 0x01, 0x44]) + dev.energy + bytes([9]), int(kind[-2:], 16))
    if kind.startswith("humidity-t"):
        return rc.frame_build(bytes([0xC1, 0x21, 0x01, 0x45, dev.humidity_now]) + bytes(15) + bytes([9]), int(kind[-2:], 16))
    if kind == "state-sum":
        dev.check = "sum"
        return dev.report(0x02, 9)
    if kind in ("state-crc0", "state-sum0", "energy-crc0"):
        # a valid response whose body check byte happens to be 0x00 (one message id in 256 does that)
        for mid in range(256):
            if kind == "state-crc0":
                f = dev.report(0x03, mid)
            elif kind == "state-sum0":
                dev.check = "sum"
                f = dev.report(0x03, mid)
            else:
                f = rc.frame_build(bytes([0xC1, 0x21, 0x01, 0x44]) + dev.energy + bytes([mid]), 0x03)
            if f[-2] == 0:
                return f
        raise RuntimeError("no message id gives a zero check byte")
    if kind == "props-ack":
        return dev._props_frame(0xB0, [0x000A, 0x0009], 0x02, 9)
    if kind == "caps":
        dev.cap_pages = [[cap_record(0x0212, 0), cap_record(0x0214, 2), cap_record(0x0215, 2), cap_record(0x0210, 1),
                          cap_record(0x0225, 0x20, 0x40, 0x20, 0x40, 0x20, 0x40, 1), cap_record(0x0224, 1)]]
        return dev._caps_frame(0, 9)
    if kind == "props":
        return dev._props_frame(0xB1, [0x0009, 0x000A], 0x03, 9)
    if kind == "energy":
        return rc.frame_build(bytes([0xC1, 0x21, 0x01, 0x44]) + dev.energy + bytes([9]), 0x03)
    return rc.frame_build(bytes([0xC1, 0x21, 0x01, 0x45, dev.humidity_now]) + bytes(15) + bytes([9]), 0x03)


def must_drop(frame: bytes) -> bool:
    if rc.checksum(frame[1:-1]) != frame[-1]:
        return True
    body = frame[10:-1]
    if len(body) < 2:
        return False           # no expectation from this property on degenerate frames
    if body[0] in (0xB0, 0xB1):
        return False
    return body[-1] != rc.crc8(body[:-1]) and body[-1] != rc.checksum(body[:-1])


CAP_ATTRS = ("supported_operation_modes", "supported_swing_modes", "supported_fan_speeds", "supports_custom_fan_speed",
             "supports_eco", "supports_turbo", "supports_freeze_protection", "supports_display_control", "supports_filter_reminder",
             "supports_purifier", "min_target_temperature", "max_target_temperature", "supports_humidity",
             "supports_target_humidity", "supports_horizontal_swing_angle", "supports_vertical_swing_angle",
             "supports_self_clean", "supported_rate_selects", "supported_aux_modes", "supports_breeze_away", "supports_ieco")


def snapshot(ac: AC) -> dict:
    d = dict(ac.to_dict())
    d.pop("online")
    d.pop("supported")
    for a in CAP_ATTRS:
        v = getattr(ac, a)
        d[a] = list(v) if isinstance(v, list) else v
    return d


class Bench:
    """One world: client with known state; each step answers the next exchange with one mutated frame."""

    def __init__(self, kind: str) -> None:
        self.kind = kind
        self.reply = {"frame": None}

        def script(req):
            if self.reply["frame"] is None:
                for p in req.responses:
                    req.send(p)
            elif isinstance(self.reply["frame"], list):
                req.conn.deliver_many([req.dev.wrap(req.conn, f) for f in self.reply["frame"]], 0.01)
            else:
                req.send(req.dev.wrap(req.conn, self.reply["frame"]))

        self.rig = Rig(2, ac=rich_device(), script=script)
        self.ac = self.rig.client()
        self.ac.enable_energy_usage_requests = True

        async def prime():
            await self.ac.get_capabilities()
            await self.ac.refresh()
        out = self.rig.run(prime())
        assert out[0] == "ok" and self.ac.online, out
        self.base = snapshot(self.ac)

    def step(self, frame):
        """frame: one mutated frame, or a list of frames delivered back to back as one reply batch."""
        self.reply["frame"] = frame
        coro = self.ac.get_capabilities() if self.kind == "caps" else self.ac.refresh()
        out = self.rig.run(coro)
        return out, snapshot(self.ac), self.ac.online, self.ac.supported

    def close(self):
        self.rig.close()


REAL_FRAMES = [
    # captured frames quoted in the repository's tests (state, capabilities x3, properties, energy, humidity)
    "aa23ac00000000000303c00145660000003c0010045c6800000000000000000000018426",
    "aa22ac00000000000303c0014566000000300010045cff2070000000000000008bed19",
    "aa29ac00000000000303b5071202010113020101140201011502010116020101170201001a020101dedb",
    "aa3dac00000000000303b50a12020101430001011402010115020101160201001a020101100201011f020103250207203c203c203c05400001000100c805",
    "aa23ac00000000000303b5051e020101130201012202010019020100390001010000febe",
    "aa21ac00000000000303b10409000001000a00000100150000012b1e020000005fa3",
    "aa20ac00000000000203c121014400564a02640000000014ae0000000000041a22",
    "aa20ac00000000000303c12101453f546c005d0a000000de1f0000ba9a0004af9c",
]


def varied_frames():
    """Valid frames of every kind with varied contents (so that rare arithmetic coincidences are reachable)."""
    out = [bytes.fromhex(h) for h in REAL_FRAMES]
    for i in range(48):
        dev = rich_device()
        dev.state.update(temp=17.0 + (i % 27) * 0.5, fan=1 + (i * 7) % 101, mode=1 + i % 6, humidity=(i * 13) % 101, power=bool(i & 1),
                         eco=bool(i & 2), sleep=bool(i & 4), swing=(0, 3, 0xC, 0xF)[i % 4])
        dev.indoor, dev.outdoor = ((40 + i * 3) & 0xFF, i % 10), ((90 + i * 5) & 0xFF, (i * 3) % 10)
        dev.report_len = 16 + i % 12
        out.append(dev.report(0x03 if i % 2 else 0x02, (i * 37) & 0xFF))
    return out


def shards(tier):
    out = []
    out += [("lenbyte", lo, lo + 8) for lo in range(0, len(varied_frames()), 8)]
    out += [("same", 0, 0)]
    out += [("batch", i, 0) for i in range(len(KINDS))]
    for k in KINDS + ["state-crc0", "state-sum0", "state-t05", "state-t04", "energy-t06", "humidity-t05"] + (
            ["state-sum", "props-ack", "energy-crc0", "state-t06", "state-t0a", "state-t02", "energy-t04", "energy-t05", "humidity-t04"] if tier == "thorough" else []):
        n = len(valid_frame(k))
        step = 3 if tier == "thorough" else 6
        for lo in range(1, n, step):
            out.append((k, lo, min(lo + step, n)))
    return out


def run_lenbyte(st: Stats, lo, hi):
    """Every value of the length byte (and of each header byte) of many different valid frames, no fix-up."""
    frames = varied_frames()[lo:hi]
    bench = Bench("state")
    try:
        for fi, good in enumerate(frames):
            kind = "caps" if good[10] == 0xB5 else "state"
            if bench.kind != kind:
                bench.close()
                bench = Bench(kind)
            for pos in range(1, 10):
                for v in range(256):
                    if v == good[pos] or (pos != 1 and v % 17):
                        continue
                    f = bytearray(good)
                    f[pos] = v
                    f = bytes(f)
                    case = {"kind": "lenbyte", "frame": good, "pos": pos, "value": v}
                    out, snap, online, supported = bench.step(f)
                    prob = None
                    if out[0] != "ok":
                        prob = f"raised {type(out[1]).__name__}"
                    elif snap != bench.base:
                        prob = "state changed"
                    elif (kind != "caps" and online) or supported:
                        prob = f"online={online} supported={supported} after only corrupt frames"
                    if prob:
                        st.violation(f"header byte {pos} corrupted (no fix-up): {prob.split('=')[0]}", case, "dropped", prob, f.hex())
                        bench.close()
                        bench = Bench(kind)
                    st.ev(("lenbyte", lo + fi, pos, v), "dropped" if not prob else "used", True)
    finally:
        bench.close()


def run_batch(st: Stats, kind: str):
    """Two and three corrupted frames in one reply batch: each one must be dropped on its own merits."""
    good = valid_frame(kind)
    n = len(good)

    def corrupt(pos, m, fix):
        f = bytearray(good)
        f[pos] ^= m
        if fix:
            f[-1] = rc.checksum(bytes(f[1:-1]))
        return bytes(f)

    muts = [corrupt(p, m, fx) for p, m, fx in ((1, 0x01, False), (n - 1, 0xFF, False), (12, 0x40, True), (n - 3, 0x08, True), (10 + (n - 12) // 2, 0x81, True),
                                               (5, 0x20, False), (11, 0x02, True))]
    muts = [f for f in muts if must_drop(f)]
    bench = Bench(kind)
    try:
        for i in range(len(muts)):
            for j in range(len(muts)):
                for third in (None, (i + j + 1) % len(muts)):
                    batch = [muts[i], muts[j]] + ([muts[third]] if third is not None else [])
                    case = {"kind": "batch", "frames": [b.hex() for b in batch], "response": kind}
                    out, snap, online, supported = bench.step(batch)
                    prob = None
                    if out[0] != "ok":
                        prob = f"raised {type(out[1]).__name__}"
                    elif snap != bench.base:
                        prob = "state changed"
                    elif (kind != "caps" and online) or supported:
                        prob = f"online={online} supported={supported} after only corrupt frames"
                    if prob:
                        st.violation(f"{kind}: batch of {len(batch)} corrupted frames: {prob.split('=')[0]}", case, "all dropped", prob)
                        bench.close()
                        bench = Bench(kind)
                    st.ev(("batch", kind, i, j, third), "dropped" if not prob else "used", True)
    finally:
        bench.close()


def run_same(st: Stats):
    """History: frame X accepted, then X again with one byte of header / check bytes corrupted (no fix-up)."""
    for variant in range(6):
        bench = Bench("state")
        try:
            dev = rich_device()
            dev.state.update(temp=20.0 + variant, fan=40 + variant)
            x = dev.report(0x03, 0x40 + variant)
            out, snap, online, supported = bench.step(x)            # accepted: becomes the client's state
            assert out[0] == "ok" and online, "priming frame must be accepted"
            base = snap
            n = len(x)
            for pos in list(range(1, 10)) + [n - 2, n - 1]:
                for m in (1, 2, 4, 8, 16, 32, 64, 128, 255):
                    f = bytearray(x)
                    f[pos] ^= m
                    f = bytes(f)
                    if not must_drop(f):
                        continue
                    case = {"kind": "same", "variant": variant, "pos": pos, "xor": m}
                    out, snap, online, supported = bench.step(f)
                    prob = None
                    if out[0] != "ok":
                        prob = f"raised {type(out[1]).__name__}"
                    elif online or supported:
                        prob = f"online={online} supported={supported} after a corrupted copy of the previous frame"
                    elif snap != base:
                        prob = "state changed"
                    if prob:
                        st.violation(f"corrupted copy of the previously accepted frame: {prob.split('=')[0]}", case, "dropped", prob, f.hex())
                    st.ev(("same", variant, pos, m), "dropped" if not prob else "used", True)
                    bench.step(x)        # accepted again before the next corrupted copy
        finally:
            bench.close()


def run_shard(shard, tier) -> Stats:
    kind, lo, hi = shard
    st = Stats()
    if kind == "lenbyte":
        run_lenbyte(st, lo, hi)
        return st
    if kind == "same":
        run_same(st)
        return st
    if kind == "batch":
        run_batch(st, KINDS[lo])
        return st
    det = Determinism(first=0, every=10**9)
    good = valid_frame(kind)
    masks = range(1, 256)
    bench = Bench(kind)
    try:
        for pos in range(lo, hi):
            for fix in (False, True):
                if fix and not (10 <= pos <= len(good) - 3):
                    continue
                for m in masks:
                    f = bytearray(good)
                    f[pos] ^= m
                    if fix:
                        f[-1] = rc.checksum(bytes(f[1:-1]))
                    f = bytes(f)
                    case = {"kind": kind, "pos": pos, "xor": m, "fixup": fix}
                    drop = must_drop(f)
                    out, snap, online, supported = bench.step(f)
                    if not drop:
                        st.ev((kind, pos, m, fix), "no-expectation:" + ("ok" if out[0] == "ok" else type(out[1]).__name__), False)
                        bench.close()
                        bench = Bench(kind)     # state may legitimately have changed
                        continue
                    prob = None
                    if out[0] != "ok":
                        prob = f"raised {type(out[1]).__name__}"
                    elif snap != bench.base:
                        ch = [k for k in snap if snap[k] != bench.base.get(k)]
                        prob = "state changed: " + ",".join(ch[:4])
                    elif kind != "caps" and (online or supported):
                        prob = f"online={online} supported={supported} after only corrupt frames"
                    elif kind == "caps" and supported:
                        prob = "supported=True after only corrupt frames"
                    if prob:
                        st.violation(f"{kind} {'fixup' if fix else 'raw'} {'body' if pos >= 10 else 'header'}: {prob.split(':')[0]}", case,
                                     "frame dropped, state unchanged, offline/unsupported", prob, f.hex())
                        bench.close()
                        bench = Bench(kind)
                    st.ev((kind, pos, m, fix), "dropped" if not prob else "used", True,
                          sample=None if len(st.samples) else {**case, "frame": f.hex()})
    finally:
        bench.close()
    return st


def replay(case):
    if case["kind"] in ("lenbyte", "same", "batch"):
        st = Stats()
        if case["kind"] == "batch":
            run_batch(st, case["response"])
        elif case["kind"] == "same":
            run_same(st)
        else:
            run_lenbyte(st, 0, len(varied_frames()))
        return sorted(st.viol_counts)
    good = valid_frame(case["kind"])
    f = bytearray(good)
    f[case["pos"]] ^= case["xor"]
    if case["fixup"]:
        f[-1] = rc.checksum(bytes(f[1:-1]))
    b = Bench(case["kind"])
    try:
        out, snap, online, supported = b.step(bytes(f))
        return {"must_drop": must_drop(bytes(f)), "outcome": str(out)[:100], "changed": [k for k in snap if snap[k] != b.base.get(k)],
                "online": online, "supported": supported}
    finally:
        b.close()
