"""C15 - Capability records are interpreted independently and survive paging."""
from __future__ import annotations

from itertools import product

from msmart.device.AC.command import CapabilityId, Response

from .. import refcodec as rc
from ..harness import World, filler
from ..refdevice import RefAC, cap_record
from ..report import Stats
from ..util import Rig
from .c13 import CAP_ATTRS

PROPERTY = "C15"
LEVEL = "exploration"
RULE = ("metamorphic bounded-exhaustive enumeration (E1): record shapes = every known capability id x every value 0..255, every id "
        "with sizes 1..10, unknown ids, zero-size records, TEMPERATURES with sizes 1..10. Lists: every single record; all ordered "
        "lists of length <= 3 over a 24-shape sub-alphabet; 12- and 24-record lists as every rotation and reversal of the "
        "sub-alphabet. Differential oracle, no hand-written table: raw(list) == in-order merge of raw([r]) for each r "
        "(implementation on single-record responses); public capability attributes after get_capabilities() on the simulated "
        "wire are identical for the one-response delivery and for every split point across a first and an 'additional' response. "
        "non-trivial = lists with >= 2 records or single records of known ids")
ASSUMPTIONS = ["lists are well-formed (each size byte equals the number of value bytes present)",
               "a page is 'B5 count records... more msgid' as in the captured vectors of the repository's tests"]

KNOWN = [int(c) for c in CapabilityId]
# public attributes that the library documents as depending on more than one capability record (none so far: filled from
# what the unchanged tree does, each entry justified in DESIGN section 9)
COUPLED: set = set()
TEMPS = int(CapabilityId.TEMPERATURES)


def bounds(tier):
    return {"known_ids": len(KNOWN), "values": "0..255", "sizes": "1..10", "list_len_exhaustive": 3, "sub_alphabet": len(sub_alphabet()),
            "long_lists": "rotations + reversals of 12 / 24 records", "splits": "every point 0..n",
            "wire_lists": "all lists <= 3" if tier == "thorough" else "all lists <= 2 + 1/7 of length 3"}


def sub_alphabet() -> list[bytes]:
    r = cap_record
    return [
        r(0x0214, 1), r(0x0214, 2), r(0x0215, 1), r(0x0210, 7), r(0x0210, 1), r(0x0212, 1), r(0x021A, 3), r(0x0224, 1),
        r(TEMPS, 0x22, 0x3C, 0x22, 0x3C, 0x22, 0x3C, 1), r(TEMPS, 0x20, 0x40, 0x24, 0x38, 0x22, 0x3C), r(TEMPS, 0x20, 0x40, 0x24),
        r(TEMPS, 0x21), r(0x0040, 1), r(0x0777, 1, 2, 3), r(0x0012), r(0x0214), r(0x0043, 1), r(0x0042, 1), r(0x0018, 1),
        r(0x0048, 2), r(0x00E3, 1), r(0x0009, 1), r(0x0216, 2, 9, 9), r(0x021F, 2),
        # the same ids again with the opposite meaning (a later record overrides an earlier one)
        r(0x0216, 0), r(0x0048, 0), r(0x0048, 1), r(0x0212, 0),
    ]


def attr_alphabet() -> list[bytes]:
    r = cap_record
    out = list(sub_alphabet())
    # operating-mode sets, asymmetric temperature ranges, power / fan / swing variants: records whose DERIVED attributes
    # (supported modes, limits, ...) are easy to couple by mistake
    out += [r(0x0214, v) for v in (0, 3, 4)] + [r(0x0210, v) for v in (0, 2, 3, 4, 5, 6)] + [r(0x0215, v) for v in (0, 2, 3)]
    out += [r(TEMPS, 0x22, 0x3C, 0x22, 0x3C, 0x20, 0x3E, 1), r(TEMPS, 0x20, 0x3E, 0x22, 0x3C, 0x22, 0x3C, 0), r(TEMPS, 0x22, 0x3C, 0x1E, 0x40, 0x22, 0x3C)]
    out += [r(0x0216, 1), r(0x021F, 1), r(0x021F, 3), r(0x0222, 1), r(0x0213, 1), r(0x0217, 1), r(0x0219, 1), r(0x022C, 1), r(0x0039, 1), r(0x0009, 1), r(0x000A, 1)]
    seen, uniq = set(), []
    for x in out:
        if x not in seen:
            seen.add(x)
            uniq.append(x)
    return uniq


def frame_for(records: list[bytes], more: int = 0) -> bytes:
    body = bytes([0xB5, len(records)]) + b"".join(records) + bytes([more, 0x33])
    return rc.frame_build(body, 0x03)


def raw_of(records: list[bytes], more: int = 0):
    resp = Response.construct(frame_for(records, more))
    return dict(resp.raw_capabilities), resp.additional_capabilities


def merged_singles(records: list[bytes]) -> dict:
    out = {}
    for r in records:
        d, _ = raw_of([r])
        out.update(d)
    return out


def shards(tier):
    out = [("single", lo, lo + 8) for lo in range(0, len(KNOWN) + 8, 8)]
    out += [("sizes", 0, 0)]
    n = len(sub_alphabet())
    out += [("lists", i, 0) for i in range(n)]
    out += [("long", 0, 0)]
    out += [("wire", i, 0) for i in range(n)]
    out += [("wire-long", 0, 0)]
    out += [("unknown-runs", 0, 0)]
    out += [("attr-pairs", i, 0) for i in range(len(attr_alphabet()))]
    return out


def check_list(st: Stats, records, label):
    case = {"seam": "parse", "records": [r.hex() for r in records]}
    try:
        got, more = raw_of(records)
        want = merged_singles(records)
        prob = None
        if got != want:
            missing = sorted(set(want) - set(got))
            wrong = sorted(k for k in got if k in want and got[k] != want[k])
            extra = sorted(set(got) - set(want))
            prob = f"missing={missing[:4]} wrong={wrong[:4]} extra={extra[:4]}"
        elif more:
            prob = "additional-capabilities flag set on a final page"
        else:
            _, more1 = raw_of(records, 1)
            if not more1:
                prob = "additional-capabilities flag lost"
    except Exception as e:  # noqa: BLE001
        prob = f"raised {type(e).__name__}"
    if prob:
        ids = "+".join(f"{r[1]:02x}{r[0]:02x}/{r[2]}" for r in records[:4])
        st.violation(f"parse {label}: list differs from merged singles ({'undersized TEMPERATURES' if any(r[0] | r[1] << 8 == TEMPS and r[2] < 6 for r in records) else 'other'})"
                     if "missing" in prob else f"parse {label}: {prob}", case, "merge of single-record interpretations", prob, ids)
    return prob


def caps_snapshot(ac):
    d = {a: (list(getattr(ac, a)) if isinstance(getattr(ac, a), list) else getattr(ac, a)) for a in CAP_ATTRS}
    d["enable_energy_usage_requests"] = ac.enable_energy_usage_requests
    d["supports_breezeless"] = ac.supports_breezeless
    d["supports_breeze_mild"] = ac.supports_breeze_mild
    return d


def wire_caps(records, split):
    """get_capabilities against a device delivering records[:split] + additional records[split:] (split None: one page)."""
    pages = [list(records)] if split is None else [list(records[:split]), list(records[split:])]
    rig = Rig(2, ac=RefAC(cap_pages=pages))
    ac = rig.client()
    try:
        out = rig.run(ac.get_capabilities())
        return out, caps_snapshot(ac), len(rig.dev.ac.frames)
    finally:
        rig.close()


def check_wire(st: Stats, records, label):
    base_out, base, nreq = wire_caps(records, None)
    case0 = {"seam": "wire", "records": [r.hex() for r in records]}
    if base_out[0] != "ok":
        st.violation(f"wire {label}: get_capabilities raised {type(base_out[1]).__name__}", case0, "returns", str(base_out[1])[:100])
    bad = 0
    for split in range(0, len(records) + 1):
        out, snap, nreq = wire_caps(records, split)
        prob = None
        if out[0] != "ok":
            prob = f"raised {type(out[1]).__name__}"
        elif nreq != 2:
            prob = f"{nreq} capability requests sent, expected 2 (first + additional)"
        elif snap != base:
            ch = [k for k in snap if snap[k] != base[k]]
            prob = "attributes differ from one-response delivery: " + ",".join(ch[:5])
        if prob:
            bad += 1
            st.violation(f"wire {label}: split delivery {prob.split(':')[0].split(',')[0]}", {**case0, "split": split},
                         "same attributes as the one-response delivery", prob)
        st.ev(("wire", tuple(records), split), "same" if not prob else "differ", True,
              sample=None if len(st.samples) else {**case0, "split": split})
    return bad


def run_shard(shard, tier) -> Stats:
    kind, a, b = shard
    st = Stats()
    World().close()
    alpha = sub_alphabet()
    if kind == "single":
        ids = (KNOWN + [0x0000, 0x0001, 0x0777, 0xFFFF, 0x0100, 0x0226, 0x00FF, 0x0041])[a:b]
        for cid in ids:
            for v in range(256):
                rec = cap_record(cid, v)
                # a single record next to a fixed neighbour on each side: interpretation must not depend on neighbours
                for ctx in ([rec], [alpha[0], rec], [rec, alpha[5]], [alpha[12], rec, alpha[2]]):
                    prob = check_list(st, ctx, "single")
                    st.ev(("single", cid, v, len(ctx)), "agree" if not prob else "differ", cid in KNOWN,
                          sample=None if len(st.samples) or v != 1 else {"record": rec.hex()})
    elif kind == "sizes":
        for cid in KNOWN + [0x0777]:
            for size in range(0, 11):
                vals = list(filler(f"c15/{cid}", size)) if cid != TEMPS else [0x20 + 2 * i for i in range(size)]
                rec = cap_record(cid, *vals)
                for ctx in ([rec, alpha[0]], [alpha[3], rec, alpha[5]], [rec, rec, alpha[7]]):
                    prob = check_list(st, ctx, f"size")
                    st.ev(("size", cid, size, len(ctx)), "agree" if not prob else "differ", True)
    elif kind == "lists":
        first = alpha[a]
        check_list(st, [first], "len1")
        for second in alpha:
            prob = check_list(st, [first, second], "len2")
            st.ev(("l2", a, second), "agree" if not prob else "differ", True)
            for third in alpha:
                prob = check_list(st, [first, second, third], "len3")
                st.ev(("l3", a, second, third), "agree" if not prob else "differ", True)
    elif kind == "long":
        for n in (12, 24):
            for rot in range(len(alpha)):
                lst = [alpha[(rot + i) % len(alpha)] for i in range(n)]
                for variant in (lst, lst[::-1]):
                    prob = check_list(st, variant, f"len{n}")
                    st.ev(("long", n, rot, variant is lst), "agree" if not prob else "differ", True)
    elif kind == "wire":
        first = alpha[a]
        check_wire(st, [first], "len1")
        for j, second in enumerate(alpha):
            check_wire(st, [first, second], "len2")
            for k, third in enumerate(alpha):
                if tier == "thorough" or (a + j + k) % 7 == 0:
                    check_wire(st, [first, second, third], "len3")
    elif kind == "unknown-runs":
        # runs of 1..14 records with ids the library does not know, in front of / between / behind known records
        known = [alpha[0], alpha[5], alpha[8], alpha[12]]
        for k in range(1, 15):
            run = [cap_record(0x0226 + i, 1 + i % 3, *([7] * (i % 3))) for i in range(k)]
            for lst in (run + known, known[:2] + run + known[2:], known + run, run + known[:1] + run):
                prob = check_list(st, lst, f"unknown-run")
                st.ev(("unk", k, len(lst), lst[0] == run[0]), "agree" if not prob else "differ", True)
                if k in (5, 6, 7, 12) and lst is not None and len(lst) <= 24:
                    check_wire(st, lst, "unknown-run")
        # ... and runs of 1..10 zero-size records (known and unknown ids mixed)
        for k in range(1, 11):
            run = [cap_record([0x0012, 0x0214, 0x0777, 0x0212, 0x0226][i % 5]) for i in range(k)]
            for lst in (run + known, known[:2] + run + known[2:], known + run, run + known[:1], run + [cap_record(0x0212, 1)]):
                prob = check_list(st, lst, "zero-size-run")
                st.ev(("zero", k, len(lst), lst[0] == run[0]), "agree" if not prob else "differ", True)
                if k in (2, 3, 4, 9):
                    check_wire(st, lst, "zero-size-run")
    elif kind == "attr-pairs":
        # attribute-level independence: what one record contributes to the public capability attributes does not depend
        # on a record of a different id next to it
        aa = attr_alphabet()
        r1 = aa[a]
        base = wire_caps([], None)[1]
        s1 = wire_caps([r1], None)[1]
        for r2 in aa:
            if r2[:2] == r1[:2]:
                continue
            s2 = wire_caps([r2], None)[1]
            both = wire_caps([r1, r2], None)[1]
            bad = []
            for k_ in base:
                if k_ in COUPLED:
                    continue
                d1, d2 = s1[k_] != base[k_], s2[k_] != base[k_]
                want = base[k_] if not d1 and not d2 else s1[k_] if d1 and not d2 else s2[k_] if d2 and not d1 else None
                if (d1 and d2 and s1[k_] != s2[k_]):
                    continue
                if want is None:
                    want = s1[k_]
                if both[k_] != want:
                    bad.append(k_)
            if bad:
                st.violation(f"attributes of a record depend on a neighbouring record of another id: {bad[0]}",
                             {"seam": "attr-pairs", "records": [r1.hex(), r2.hex()]}, "each record contributes independently", ",".join(bad[:5]))
            st.ev(("attr", a, r2), "independent" if not bad else "coupled", True)
    else:
        for rot in range(0, len(alpha), 3):
            lst = [alpha[(rot + i) % len(alpha)] for i in range(12)]
            check_wire(st, lst, "len12")
            check_wire(st, lst[::-1], "len12")
    return st


def replay(case):
    st = Stats()
    recs = [bytes.fromhex(r) for r in case["records"]]
    if case["seam"] == "attr-pairs":
        return {k: str(wire_caps(x, None)[1]) for k, x in (("first", recs[:1]), ("second", recs[1:]), ("both", recs))}
    if case["seam"] == "parse":
        return {"problem": check_list(st, recs, "replay"), "raw": str(raw_of(recs)), "merged_singles": str(merged_singles(recs))}
    return {"differing_splits": check_wire(st, recs, "replay"), "violations": sorted(st.viol_counts)}
