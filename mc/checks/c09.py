"""C09 - Transport containment: peer bytes cause only protocol errors or timeouts."""
from __future__ import annotations

import asyncio
import hashlib
from itertools import product

from msmart.base_device import Device
from msmart.const import DeviceType
from msmart.device import AirConditioner as AC
from msmart.device.AC.command import GetStateCommand
from msmart.lan import LAN, ProtocolError

from .. import refcodec as rc
from ..harness import Determinism, World, exc_class, filler
from ..refdevice import RefAC
from ..report import Stats
from ..simdev import SimDevice

PROPERTY = "C09"
LEVEL = "fault_enumeration"
RULE = ("grammar-aware fault enumeration (full product of per-field alphabets, no sampling). V2 reply: marker x length field "
        "x ciphertext shape x signature x truncation. V3, at phase {awaiting handshake reply, authenticated awaiting data}: "
        "type nibble 0..15 x pad nibble x magic x size field x body shape (valid, correctly tagged garbage, correctly signed "
        "inner packet with bad padding, misaligned, filler); plus raw filler of lengths 1..40. Each crafted reply is sent "
        "for every request of the phase and driven through LAN.send, LAN.authenticate, Device._send_command and "
        "AirConditioner.refresh; the same alphabets are also injected UNSOLICITED between two exchanges (idle phase), after the "
        "handshake, as bursts of 300 / 3000 minimal packets of each type, as 64 kB .. 200 kB of marker-free garbage, as the same failure 15 times in a row on one device object, as the answer that follows 1 / 2 unanswered requests of the same authentication or exchange, as a packet that arrives 0 / 0.3 / 0.98 s behind a genuine handshake reply, and as the answer to the IMPLICIT re-handshake of an operation that follows a lost connection or an expired authentication. Outcome must be frames / ProtocolError family / TimeoutError; device-level calls never raise. "
        "A case is (protocol, phase, field values, driver); all non-trivial")
ASSUMPTIONS = ["the crafted reply is repeated for every retransmission", "frames carried by 'valid' bodies are well-formed state reports"]
IP, PORT = "10.0.0.3", 6444
CMD = bytes.fromhex("aa21ac8d000000000003418100ff03ff000200000000000000000000000003016971")
DRIVERS = ["send", "command", "refresh", "send-then-send"]
IDLE_DRIVERS = ["send-idle", "refresh-idle"]
REAUTH_DRIVERS = ["send-reauth", "refresh-reauth", "refresh-reauth-expired"]

V2_MARKERS = [b"\x5a\x5a", b"\x5a\x5b", b"\x00\x00", b"\x83\x70", b"\xaa\x20"]
V2_LENGTHS = [0, 1, 5, 6, 39, 40, 55, 56, 57, "n-1", "n", "n+1", 0xFFFF]
V2_CIPHER = ["valid", "empty", "b1", "b15", "b17", "fill16", "fill32", "badpad", "valid-frame0", "valid-frame1", "valid-frame2"]
V2_SIGS = ["valid", "stale", "zero"]
V2_TRUNC = [None, 5, 6, 40, "n-1"]

V3_PHASES = ["handshake", "data"]
V3_PADS = [0, 1, 15]
V3_MAGIC = [0x20, 0x00, 0xFF]
V3_SIZES = [0, 1, 31, 32, 33, 48, 64, "actual", "actual-1", "actual+1"]
V3_BODIES = ["valid", "valid-ctr-ffff", "valid-ctr-1000", "tagged-garbage", "signed-badpad", "tagged-empty", "misaligned", "filler", "tag-only", "tag-only-1block"]


def bounds(tier):
    return {"v2_product": [len(V2_MARKERS), len(V2_LENGTHS), len(V2_CIPHER), len(V2_SIGS), len(V2_TRUNC)],
            "v3_product": [len(V3_PHASES), 16, len(V3_PADS), len(V3_MAGIC), len(V3_SIZES), len(V3_BODIES)],
            "raw_filler_lengths": "1..40", "drivers": DRIVERS + ["authenticate"]}


def shards(tier):
    out = [("v2", m, 0) for m in range(len(V2_MARKERS))]
    out += [("v3", ph, t) for ph in range(2) for t in range(16)]
    out += [("raw", v, 0) for v in (2, 3)]
    out += [("v3idle", 0, t) for t in range(16)]
    out += [("v3re", 0, t) for t in range(16)]
    out += [("v2idle", m, 0) for m in range(len(V2_MARKERS))]
    out += [("flood", t, 0) for t in range(0, 16, 4)]
    out += [("bulk", v, 0) for v in (2, 3)]
    out += [("streak", v, 0) for v in (2, 3)]
    out += [("v3seq", 0, t) for t in range(16)]
    return out


GOOD_FRAME = RefAC().report(0x03, 5)


def craft_v2(marker, lf, cipher, sig, trunc) -> bytes:
    if cipher == "valid":
        enc = rc.ecb_encrypt(rc.ENC_KEY, rc.pkcs7_pad(GOOD_FRAME))
    elif cipher.startswith("valid-frame"):
        # correctly encrypted and padded, but the frame inside is 0, 1 or 2 bytes long
        enc = rc.ecb_encrypt(rc.ENC_KEY, rc.pkcs7_pad(b"\xaa\x01"[:int(cipher[-1])]))
    elif cipher == "empty":
        enc = b""
    elif cipher == "b1":
        enc = b"\x42"
    elif cipher == "b15":
        enc = filler("c09/15", 15)
    elif cipher == "b17":
        enc = filler("c09/17", 17)
    elif cipher == "fill16":
        enc = filler("c09/16", 16)
    elif cipher == "fill32":
        enc = filler("c09/32", 32)
    else:  # block aligned, decrypts to invalid PKCS#7
        enc = rc.ecb_encrypt(rc.ENC_KEY, GOOD_FRAME[:31] + b"\x00")
    n = 40 + len(enc) + 16
    L = {"n-1": n - 1, "n": n, "n+1": n + 1}.get(lf, lf)
    hdr = marker + b"\x01\x11" + bytes([L & 0xFF, (L >> 8) & 0xFF]) + b"\x20\x80" + bytes(4) + bytes(8) + (7).to_bytes(8, "little") + bytes(12)
    body = hdr + enc
    if sig == "valid":
        s = rc.v2_sign(body)
    elif sig == "stale":
        s = rc.v2_sign(b"\x5a\x5a" + body[2:4] + bytes([n & 0xFF, n >> 8]) + body[6:])
    else:
        s = bytes(16)
    pkt = body + s
    if trunc is not None:
        pkt = pkt[:(len(pkt) - 1 if trunc == "n-1" else trunc)]
    return pkt


def inner_v2(kind: str) -> bytes:
    if kind.startswith("valid"):
        return rc.v2_build(GOOD_FRAME, 7)
    if kind == "signed-badpad":
        return craft_v2(b"\x5a\x5a", "n", "badpad", "valid", None)
    if kind == "tagged-garbage":
        return filler("c09/inner", 70)
    return b""


def craft_v3(phase, ptype, pad, magic, size, body, sk, hs_body) -> bytes:
    if body in ("tag-only", "tag-only-1block"):
        # no (or one garbage block of) ciphertext and a tag that is valid for the header alone: forgeable without the key
        cipher = b"" if body == "tag-only" else filler("c09/blk", 16)
        asz = len(cipher) + 32 - 2
        asz = {"actual": asz, "actual-1": asz - 1, "actual+1": asz + 1}.get(size, size)
        hdr = rc.v3_header(asz & 0xFFFF, pad, ptype, magic)
        return hdr + cipher + hashlib.sha256(hdr).digest()
    if body == "misaligned":
        payload = filler("c09/mis", 33 + 32)
    elif body == "filler":
        payload = filler("c09/fill", 46 + 32)
    elif phase == "handshake" and body == "valid":
        payload = hs_body
    elif sk is None:
        payload = filler("c09/nokey", 64 + 32)
    else:
        inner = inner_v2(body)
        rem = (len(inner) + 2) % 16
        p = 0 if rem == 0 else 16 - rem
        ctr = {"valid-ctr-ffff": b"\xff\xff", "valid-ctr-1000": b"\x10\x00"}.get(body, b"\x00\x01")
        plain = ctr + inner + bytes(p)
        size_f = len(inner) + p + 32
        # tag is computed over the header actually sent (so it verifies when the library accepts the header)
        asz = size_f if isinstance(size, str) else size
        if size == "actual-1":
            asz = size_f - 1
        elif size == "actual+1":
            asz = size_f + 1
        hdr = rc.v3_header(asz & 0xFFFF, p if pad == 0 else pad, ptype, magic)
        return hdr + rc.cbc_encrypt(sk, plain) + hashlib.sha256(hdr + plain).digest()
    actual = len(payload)
    asz = {"actual": actual, "actual-1": actual - 1, "actual+1": actual + 1}.get(size, size)
    return rc.v3_header(asz & 0xFFFF, pad, ptype, magic) + b"\x00\x00" + payload


def make_driver(name: str, w: World, version: int, token, key, idle=None):
    if name == "send-idle":
        lan = LAN(IP, PORT, 7)

        async def drive():
            if version == 3:
                await lan.authenticate(token, key)
            first = await lan.send(CMD)
            idle["inject"]()
            await asyncio.sleep(0.05)
            return await lan.send(CMD)
        return drive
    if name == "refresh-idle":
        ac0 = AC(ip=IP, port=PORT, device_id=7)

        async def drive():
            if version == 3:
                await ac0.authenticate(token, key)
            idle["inject_after_auth"]()
            await asyncio.sleep(0.05)
            await ac0.refresh()
            idle["inject"]()
            await asyncio.sleep(0.05)
            await ac0.refresh()
            await ac0.apply()
            return ac0.online
        return drive
    if name in REAUTH_DRIVERS:
        # an authenticated session loses its connection (or its 12 h authentication); the IMPLICIT re-handshake of the next
        # operation is answered with the crafted bytes
        lan3 = LAN(IP, PORT, 7)
        ac3 = AC(ip=IP, port=PORT, device_id=7)

        async def drive():
            who = lan3 if name == "send-reauth" else ac3
            await who.authenticate(token, key)
            if name == "send-reauth":
                await lan3.send(CMD)
            else:
                await ac3.refresh()
            if name.endswith("expired"):
                w.loop.jump(13 * 3600)
            else:
                w.net.conns[-1].peer_close(0.001)
                await asyncio.sleep(0.01)
            idle["armed"] = True
            if name == "send-reauth":
                return await lan3.send(CMD)
            await ac3.refresh()
            await ac3.apply()
            return ac3.online
        return drive
    if name == "send-then-send":
        lan2 = LAN(IP, PORT, 7)

        async def drive():
            if version == 3:
                await lan2.authenticate(token, key)
            try:
                await lan2.send(CMD)
            except (ProtocolError, TimeoutError):
                pass
            idle["honest"] = True          # whatever the crafted reply left behind: the next exchange is answered honestly
            return await lan2.send(CMD)
        return drive
    if name in ("send", "authenticate"):
        lan = LAN(IP, PORT, 7)

        async def drive():
            if version == 3:
                await lan.authenticate(token, key)
            if name == "authenticate":
                return "authenticated"
            return await lan.send(CMD)
        return drive
    if name == "command":
        d = Device(ip=IP, port=PORT, device_id=7, device_type=DeviceType.AIR_CONDITIONER)

        async def drive():
            if version == 3:
                await d.authenticate(token, key)
            return await d._send_command(GetStateCommand())
        return drive
    ac = AC(ip=IP, port=PORT, device_id=7)

    async def drive():
        if version == 3:
            await ac.authenticate(token, key)
        await ac.refresh()
        return ac.online
    return drive


def execute(version: int, phase: str, crafter, driver: str, reply_delay: float = None, silent_first: int = 0, post_auth: float = None):
    """silent_first: the first k requests of the phase get no answer at all, the crafted bytes answer request k+1.
    post_auth: the handshake is answered genuinely and the crafted bytes follow post_auth seconds behind the reply (i.e. inside
    the pause the library makes after a successful handshake)."""
    w = World()
    seen = {"n": 0}
    token, key = filler("c09/tok", 64), filler("c09/key", 32)
    sent = []
    idle = {}

    class _Req:
        """minimal request view for crafters when bytes are injected without a request"""
        def __init__(self, conn):
            self.conn, self.responses, self.kind = conn, [], "data"

    def inject():
        conn = next((c for c in reversed(w.net.conns) if not c.closing), None)
        if conn is not None:
            pkt = crafter(_Req(conn))
            sent.append(pkt)
            if pkt:
                conn.deliver(pkt, 0.01)
    idle["inject"] = inject
    idle["inject_after_auth"] = inject if version == 3 else (lambda: None)

    def script(req):
        if post_auth is not None:
            for p in req.responses:
                req.send(p)
            if req.kind == "handshake" and req.responses and not seen["n"] and (driver not in REAUTH_DRIVERS or idle.get("armed")):
                seen["n"] = 1
                pkt = crafter(req)
                sent.append(pkt)
                if pkt:
                    req.send(pkt, 0.01 + post_auth)
            return
        if phase == "rehandshake":
            if req.kind == "handshake" and idle.get("armed"):
                pkt = crafter(req)
                sent.append(pkt)
                if pkt:
                    req.send(pkt)
                return
        elif phase != "idle" and (version == 2 or req.kind == phase) and not idle.get("honest"):
            seen["n"] += 1
            if seen["n"] <= silent_first:
                return
            if silent_first and seen["n"] > silent_first + 1:
                for p in req.responses:
                    req.send(p)
                return
            pkt = crafter(req)
            sent.append(pkt)
            if pkt:
                req.send(pkt) if reply_delay is None else req.send(pkt, reply_delay)
            return
        for p in req.responses:
            req.send(p)

    dev = SimDevice(version=version, token=token, key=key, device_id=7, script=script)
    w.net.listen(IP, PORT, dev)
    try:
        out = w.run(make_driver(driver, w, version, token, key, idle)())
        return out, sent, w.loop_errors()
    finally:
        w.close()


def execute_streak(version: int, what: str, n: int):
    w = World()
    token, key = filler("c09/tok", 64), filler("c09/key", 32)
    mode = {"bad": True}

    def script(req):
        if mode["bad"] and req.kind == "data":
            if what == "garbage":
                req.send(filler("c09/streak", 50))
            elif what == "error":
                req.send(rc.v3_build_plain(rc.T_ERROR, 0, b""))
            elif what == "close":
                req.close()
            return
        for p in req.responses:
            req.send(p)

    dev = SimDevice(version=version, token=token, key=key, device_id=7, script=script)
    w.net.listen(IP, PORT, dev)
    ac = AC(ip=IP, port=PORT, device_id=7)

    async def drive():
        if version == 3:
            await ac.authenticate(token, key)
        flags = []
        for _ in range(n):
            await ac.refresh()
            flags.append(ac.online)
        mode["bad"] = False
        await ac.refresh()
        flags.append(ac.online)
        return flags

    try:
        out = w.run(drive())
        return out, [], w.loop_errors()
    finally:
        w.close()


ALLOWED = {"ok", "ProtocolError", "AuthenticationError", "TimeoutError"}


def judge(st: Stats, case, driver, out, loop_errs, desc: str):
    oc = exc_class(out)
    prob = None
    if oc not in ALLOWED:
        prob = f"{driver} raised {oc}"
    elif driver in ("command", "refresh", "refresh-idle", "refresh-reauth", "refresh-reauth-expired") and oc != "ok":
        # device-level calls swallow transport failures - except a failing *authenticate* the user called explicitly
        if not (oc == "AuthenticationError" and case.get("phase") == "handshake"):
            prob = f"{driver} raised {oc}"
    if loop_errs and prob is None:
        prob = f"exception in event-loop callback: {loop_errs[0]}"
    if prob:
        st.violation(f"{desc}: {prob}", case, "frames / ProtocolError / TimeoutError", prob, str(out[1])[:200])
    return oc


def run_shard(shard, tier) -> Stats:
    kind, a, b = shard
    st = Stats()
    det = Determinism(first=3, every=409)
    if kind == "v2":
        marker = V2_MARKERS[a]
        for lf, cipher, sig, trunc in product(V2_LENGTHS, V2_CIPHER, V2_SIGS, V2_TRUNC):
            pkt = craft_v2(marker, lf, cipher, sig, trunc)
            for driver in DRIVERS:
                case = {"proto": 2, "marker": marker.hex(), "length": lf, "cipher": cipher, "sig": sig, "trunc": trunc, "driver": driver}
                res = execute(2, "data", lambda req: pkt, driver)
                if det.due():
                    r2 = execute(2, "data", lambda req: pkt, driver)
                    det.check((str(res[0]), res[2]), (str(r2[0]), r2[2]), case)
                oc = judge(st, case, driver, res[0], res[2], f"v2 cipher={cipher} sig={sig}")
                if driver in ("send", "refresh") and sig == "valid" and (trunc is not None or lf in ("n+1", 0xFFFF)):
                    # the same short / over-announced reply arriving late within the read timeout (and just before it ends)
                    for delay in (1.5, 1.99):
                        r3 = execute(2, "data", lambda req: pkt, driver, reply_delay=delay)
                        judge(st, {**case, "reply_delay": delay}, driver, r3[0], r3[2], f"v2 cipher={cipher} sig={sig} late reply")
                        st.ev(("v2", a, lf, cipher, sig, trunc, driver, delay), f"{driver}:{exc_class(r3[0])}", True)
                st.ev(("v2", a, lf, cipher, sig, trunc, driver), f"{driver}:{oc}", True,
                      sample=None if (lf, cipher, sig, trunc, driver) != ("n", "badpad", "valid", None, "send") else {**case, "packet": pkt.hex()})
    elif kind == "v3":
        phase = V3_PHASES[a]
        ptype = b
        drivers = ["authenticate"] + DRIVERS if phase == "handshake" else DRIVERS
        for pad, magic, size, body in product(V3_PADS, V3_MAGIC, V3_SIZES, V3_BODIES):
            def crafter(req, pad=pad, magic=magic, size=size, body=body):
                sk = req.conn.state.get("session_key") if phase == "data" else None
                hs = req.responses[0][8:] if (phase == "handshake" and req.responses and len(req.responses[0]) == 72) else filler("c09/hs", 64)
                return craft_v3(phase, ptype, pad, magic, size, body, sk, hs)
            for driver in drivers:
                case = {"proto": 3, "phase": phase, "type": ptype, "pad": pad, "magic": magic, "size": size, "body": body, "driver": driver}
                res = execute(3, phase, crafter, driver)
                if det.due():
                    r2 = execute(3, phase, crafter, driver)
                    det.check((str(res[0]), res[2]), (str(r2[0]), r2[2]), case)
                oc = judge(st, case, driver, res[0], res[2], f"v3 phase={phase} type={ptype} body={body}")
                st.ev(("v3", a, b, pad, magic, size, body, driver), f"{driver}:{oc}", True,
                      sample=None if (pad, magic, size, body, driver) != (0, 0x20, "actual", "signed-badpad", "send") else
                      {**case, "packet": res[1][0].hex() if res[1] else None})
    elif kind == "v3seq":
        # sequences inside ONE authentication / exchange: k unanswered requests, then the crafted answer (the retry budget is
        # partly used up when it arrives); a crafted packet inside the pause that follows a genuine handshake
        ptype = b
        for pad, size, body in product((0, 15), ("actual", 0, 33), V3_BODIES):
            for phase in V3_PHASES:
                def crafter(req, pad=pad, size=size, body=body, phase=phase):
                    sk = req.conn.state.get("session_key") if phase == "data" else None
                    hs = req.responses[0][8:] if (phase == "handshake" and req.responses and len(req.responses[0]) == 72) else filler("c09/hs", 64)
                    return craft_v3(phase, ptype, pad, 0x20, size, body, sk, hs)
                for driver in (["authenticate"] + DRIVERS if phase == "handshake" else DRIVERS):
                    for k in (1, 2):
                        case = {"proto": 3, "phase": phase, "type": ptype, "pad": pad, "magic": 0x20, "size": size, "body": body, "driver": driver, "silent_first": k}
                        res = execute(3, phase, crafter, driver, silent_first=k)
                        oc = judge(st, case, driver, res[0], res[2], f"v3 phase={phase} after {k} unanswered requests type={ptype} body={body}")
                        st.ev(("v3seq", b, pad, size, body, phase, driver, k), f"{driver}:{oc}", True)
            def crafter2(req, pad=pad, size=size, body=body):
                return craft_v3("data", ptype, pad, 0x20, size, body, req.conn.state.get("session_key"), filler("c09/hs", 64))
            for driver in ["authenticate"] + DRIVERS + REAUTH_DRIVERS:     # the last three: behind the reply to an IMPLICIT re-handshake
                for d in (0.0, 0.3, 0.98):
                    case = {"proto": 3, "phase": "data", "type": ptype, "pad": pad, "magic": 0x20, "size": size, "body": body, "driver": driver, "post_auth": d}
                    res = execute(3, "data", crafter2, driver, post_auth=d)
                    oc = judge(st, case, driver, res[0], res[2], f"v3 packet {d} s after a genuine handshake reply type={ptype} body={body}")
                    st.ev(("v3post", b, pad, size, body, driver, d), f"{driver}:{oc}", True)
    elif kind == "v3idle":
        ptype = b
        for pad, magic, size, body in product((0, 15), (0x20, 0x00), ("actual", 0, 33, "actual+1"), V3_BODIES):
            def crafter(req, pad=pad, magic=magic, size=size, body=body):
                sk = req.conn.state.get("session_key")
                return craft_v3("data", ptype, pad, magic, size, body, sk, filler("c09/hs", 64))
            for driver in IDLE_DRIVERS:
                case = {"proto": 3, "phase": "idle", "type": ptype, "pad": pad, "magic": magic, "size": size, "body": body, "driver": driver}
                res = execute(3, "idle", crafter, driver)
                oc = judge(st, case, driver, res[0], res[2], f"v3 unsolicited between exchanges type={ptype} body={body}")
                st.ev(("v3idle", b, pad, magic, size, body, driver), f"{driver}:{oc}", True)
    elif kind == "v3re":
        ptype = b
        for pad, magic, size, body in product((0, 15), (0x20, 0x00), ("actual", 0, 33, "actual+1"), V3_BODIES):
            def crafter(req, pad=pad, magic=magic, size=size, body=body):
                hs = req.responses[0][8:] if (req.responses and len(req.responses[0]) == 72) else filler("c09/hs", 64)
                return craft_v3("handshake", ptype, pad, magic, size, body, None, hs)
            for driver in REAUTH_DRIVERS:
                case = {"proto": 3, "phase": "rehandshake", "type": ptype, "pad": pad, "magic": magic, "size": size, "body": body, "driver": driver}
                res = execute(3, "rehandshake", crafter, driver)
                oc = judge(st, case, driver, res[0], res[2], f"v3 implicit re-handshake type={ptype} body={body}")
                st.ev(("v3re", b, pad, magic, size, body, driver), f"{driver}:{oc}", True)
    elif kind == "flood":
        # thousands of minimal packets of one type in a single burst (count, not content, is the stress)
        for ptype in range(a, a + 4):
            for count in (300, 3000):
                for shape in ("empty", "tagged"):
                    def crafter(req, ptype=ptype, count=count, shape=shape):
                        if shape == "empty":
                            one = rc.v3_header(0, 0, ptype) + b"\x00\x00"
                        else:
                            hdr = rc.v3_header(30, 0, ptype)
                            one = hdr + hashlib.sha256(hdr).digest()
                        return one * count
                    for phase, drivers in (("data", ["send", "refresh", "send-then-send"]), ("handshake", ["authenticate", "refresh"]),
                                           ("idle", IDLE_DRIVERS), ("rehandshake", ["refresh-reauth"])):
                        for driver in drivers:
                            case = {"proto": 3, "phase": phase, "flood": count, "type": ptype, "shape": shape, "driver": driver}
                            res = execute(3, phase, crafter, driver)
                            oc = judge(st, case, driver, res[0], res[2], f"v3 burst of {count} packets type={ptype} phase={phase}")
                            st.ev(("flood", ptype, count, shape, phase, driver), f"{driver}:{oc}", True)
    elif kind == "bulk":
        # bulk garbage: far more marker-free bytes than any packet can hold, at once and in 10 kB pieces
        version = a
        for total in (65535, 65544, 70000, 200000):
            blob = bytes(b if b not in (0x83, 0x5A) else 0x11 for b in filler(f"c09/bulk{total}", total))
            for pieces in (1, 7):
                def crafter(req, blob=blob, pieces=pieces):
                    if pieces == 1:
                        return blob
                    step = len(blob) // pieces + 1
                    for k in range(0, len(blob) - step, step):
                        req.conn.deliver(blob[k:k + step], 0.01 + k * 1e-9)
                    return blob[len(blob) - (len(blob) % step or step):]
                for phase in (["data", "idle"] if version == 2 else V3_PHASES + ["idle", "rehandshake"]):
                    drivers = (IDLE_DRIVERS if phase == "idle" else ["refresh-reauth"] if phase == "rehandshake" else
                               ["send", "refresh", "send-then-send"] if phase == "data" else ["authenticate", "refresh"])
                    for driver in drivers:
                        case = {"proto": version, "phase": phase, "bulk": total, "pieces": pieces, "driver": driver}
                        res = execute(version, phase, crafter, driver)
                        oc = judge(st, case, driver, res[0], res[2], f"v{version} {total} bytes of garbage phase={phase}")
                        st.ev(("bulk", version, total, pieces, phase, driver), f"{driver}:{oc}", True)
    elif kind == "streak":
        # repetition bound: the same failure 15 times in a row on one device object, then an honest exchange
        version = a
        for what in ("silent", "garbage", "error", "close"):
            if what == "error" and version == 2:
                continue
            res = execute_streak(version, what, 15)
            case = {"proto": version, "streak": what, "n": 15}
            oc = exc_class(res[0])
            prob = None
            if oc != "ok":
                prob = f"raised {oc}"
            elif not res[0][1][-1]:
                prob = "device still offline in the honest exchange after the streak"
            elif res[2]:
                prob = f"exception in event-loop callback: {res[2][0]}"
            if prob:
                st.violation(f"v{version} streak of 15 x {what}: {prob}", case, "no operation raises; honest exchange afterwards succeeds", prob, str(res[0][1])[:200])
            st.ev(("streak", version, what), oc, True)
    elif kind == "v2idle":
        marker = V2_MARKERS[a]
        for lf, cipher, sig, trunc in product(V2_LENGTHS, V2_CIPHER, V2_SIGS, (None, 6, "n-1")):
            pkt = craft_v2(marker, lf, cipher, sig, trunc)
            for driver in IDLE_DRIVERS:
                case = {"proto": 2, "phase": "idle", "marker": marker.hex(), "length": lf, "cipher": cipher, "sig": sig, "trunc": trunc, "driver": driver}
                res = execute(2, "idle", lambda req: pkt, driver)
                oc = judge(st, case, driver, res[0], res[2], f"v2 unsolicited between exchanges cipher={cipher} sig={sig}")
                st.ev(("v2idle", a, lf, cipher, sig, trunc, driver), f"{driver}:{oc}", True)
    else:
        version = a
        for n in range(1, 41):
            for pat in range(3):
                raw = [filler(f"c09/raw{n}", n), b"\x83\x70" * (n // 2) + b"\x83" * (n % 2), (b"\x5a\x5a" + filler("c09/r2", 40))[:n]][pat]
                for phase in (["data", "idle"] if version == 2 else V3_PHASES + ["idle"]):
                    for driver in (IDLE_DRIVERS if phase == "idle" else DRIVERS if phase == "data" else ["authenticate"] + DRIVERS):
                        case = {"proto": version, "phase": phase, "raw": raw.hex(), "driver": driver}
                        res = execute(version, phase, lambda req: raw, driver)
                        oc = judge(st, case, driver, res[0], res[2], f"v{version} raw phase={phase}")
                        st.ev(("raw", version, n, pat, phase, driver), f"{driver}:{oc}", True)
    st.reruns += det.reruns
    return st


def replay(case):
    st = Stats()
    if "bulk" in case:
        return sorted(run_shard(("bulk", case["proto"], 0), "quick").viol_counts)
    if "streak" in case:
        return sorted(run_shard(("streak", case["proto"], 0), "quick").viol_counts)
    if "flood" in case:
        return sorted(run_shard(("flood", case["type"] - case["type"] % 4, 0), "quick").viol_counts)
    if "raw" in case:
        raw = bytes.fromhex(case["raw"])
        res = execute(case["proto"], case["phase"], lambda req: raw, case["driver"])
    elif case["proto"] == 2:
        pkt = craft_v2(bytes.fromhex(case["marker"]), case["length"], case["cipher"], case["sig"], case["trunc"])
        res = execute(2, case.get("phase", "data"), lambda req: pkt, case["driver"], reply_delay=case.get("reply_delay"))
    else:
        phase = case["phase"]

        def crafter(req):
            sk = req.conn.state.get("session_key") if phase in ("data", "idle") else None
            hs = req.responses[0][8:] if (phase in ("handshake", "rehandshake") and req.responses and len(req.responses[0]) == 72) else filler("c09/hs", 64)
            return craft_v3("data" if phase == "idle" else "handshake" if phase == "rehandshake" else phase, case["type"], case["pad"], case["magic"], case["size"], case["body"], sk, hs)
        res = execute(3, phase, crafter, case["driver"], silent_first=case.get("silent_first", 0), post_auth=case.get("post_auth"))
    return {"outcome": exc_class(res[0]), "detail": str(res[0][1])[:300], "loop_errors": res[2]}
