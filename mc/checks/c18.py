"""C18 - Discovery: one device per host; bad responders cannot spoil the rest."""
from __future__ import annotations

from itertools import product

from msmart.discover import Discover

from .. import refcodec as rc
from .. import simdisc as sd
from ..harness import Determinism, World, filler
from ..report import Stats

PROPERTY = "C18"
LEVEL = "model_checking"
RULE = ("schedule enumeration (E2): configurations of up to 4 responding hosts, each good or one of 7 bad-reply classes (random "
        "bytes, undecryptable envelope, envelope with a 3-byte body, non-UTF-8 body, name without separators / non-hex type, XML "
        "without attributes, a good reply truncated by 1..48 bytes), 1..3 duplicate copies per host from different source ports; for every configuration ALL distinct "
        "arrival orders of the datagram multiset are executed against the real Discover.discover() on the simulated broadcast (limited or subnet-directed; "
        "two of the good hosts send replies ending in LF / CR). "
        "Oracle: discover() returns (never raises) exactly one device per good host. "
        "state = (configuration, arrival-order prefix); transition = one datagram delivered")
ASSUMPTIONS = ["duplicates of one host are byte-identical", "datagrams arrive 1 ms apart, all before the 5 s discovery window closes"]

BAD = ["random", "undecryptable", "short-body", "non-utf8", "bad-name", "xml-no-attrs", "truncated"]


def bad_datagram(kind: str, ip: str, variant: int = 0) -> bytes:
    if kind == "random":
        return [filler("c18/rnd", 60), b"\x00" * 10, b"<notxml", b"\x5a"][variant % 4]
    if kind == "undecryptable":
        return [sd.v2_reply(5, b"", raw_cipher=filler("c18/und", 33)), sd.v2_reply(5, b"", raw_cipher=filler("c18/und2", 32)),
                sd.v3_wrap(sd.v2_reply(5, b"", raw_cipher=filler("c18/und3", 17)))][variant % 3]
    if kind == "short-body":
        return [sd.v2_reply(5, b"\x01\x02\x03"), sd.v3_wrap(sd.v2_reply(5, b"\x01\x02\x03")), sd.v2_reply(5, b""),
                sd.v2_reply(5, sd.payload(ip, 6444, "S" * 32, "net_ac_0001")[:20])][variant % 4]
    if kind == "non-utf8":
        p = bytearray(sd.payload(ip, 6444, "S" * 32, "net_ac_0001"))
        if variant % 2:
            p[10] = 0xFF      # serial number
        else:
            p[43] = 0xFE      # name
        return sd.v2_reply(5, bytes(p))
    if kind == "bad-name":
        name = ["netac0001", "net_zz_0001", "net__0001", ""][variant % 4]
        return sd.v2_reply(5, sd.payload(ip, 6444, "S" * 32, name))
    if kind == "truncated":
        # an otherwise good reply that lost its last bytes (whole cipher blocks, or not)
        cut = [16, 1, 32, 17, 8, 48, 33, 15][variant % 8]
        name = "net_ac_0001" if variant % 2 == 0 else "net_ac_0001_with_a_long_suffix"
        good = sd.reply(2 + (variant // 2) % 2, 5, ip, 6444, "S" * 32, name)
        return good[:-cut]
    if kind == "xml-no-attrs":
        return [b"<root><body><device/></body></root>", b"<root><body><device port=\"abc\"/></body></root>"][variant % 2]
    raise ValueError(kind)


GOOD_TYPES = ["ac", "AC", "a1", "fd"]      # air conditioners and other Midea appliances are equally 'good' responders


def good_name(i: int) -> str:
    return f"net_{GOOD_TYPES[i % len(GOOD_TYPES)]}_{i:04X}"


def good_id(i: int) -> int:
    return 0x1000 + (i % 2)          # hosts 0/2 and 1/3 advertise the same device id (clones): still one device per address


_GOOD_CACHE: dict = {}


def good_datagram(i: int, ip: str):
    # a host answers each probe; its replies may come as bare V2 packets and as V3-wrapped ones (same identity)
    first = 2 + i % 2
    # odd-numbered hosts advertise (inside the reply) the address of host 0 instead of the one they answer from
    # (multi-homed / NATed device): a device is still reported per RESPONDING address
    inner_ip = ip if i % 2 == 0 else "10.2.0.10"
    # hosts 2 and 3: the serial number is chosen so that the first rendition of the reply ends in LF resp. CR (the trailing
    # digest is opaque bytes; a line-oriented "clean-up" of the datagram must not eat it)
    want = {2: 0x0A, 3: 0x0D}.get(i)
    key = (i, ip)
    if key not in _GOOD_CACHE:
        for n in range(400000):
            sn = f"{i:02d}{n:030d}"
            dgs = [sd.reply(v, good_id(i), inner_ip, 6444, sn, good_name(i)) for v in (first, 5 - first, first)]
            if want is None or dgs[0][-1] == want:
                _GOOD_CACHE[key] = dgs
                break
    return _GOOD_CACHE[key]


def configs(tier):
    """(roles, copies): roles[i] is 'good' or a bad class; copies[i] in 1..3."""
    out = []
    copy_sets = {1: [(1,), (3,)], 2: [(1, 1), (2, 1), (2, 2), (3, 2)], 3: [(1, 1, 1), (2, 2, 1), (3, 1, 1), (2, 2, 2)],
                 4: [(1, 1, 1, 1), (2, 1, 1, 1), (2, 2, 1, 1), (2, 2, 2, 1), (3, 2, 1, 1)]}
    for n in (1, 2, 3, 4):
        for mask in range(1 << n):           # which hosts are bad
            nb = bin(mask).count("1")
            # rotate through the bad classes so that every class appears with every position
            for rot in (range(len(BAD)) if (tier == "thorough" or n <= 2) else range(0, len(BAD), 2)):
                if nb == 0 and rot:
                    continue
                roles, k = [], 0
                for i in range(n):
                    if mask >> i & 1:
                        roles.append(BAD[(rot + k) % len(BAD)])
                        k += 1
                    else:
                        roles.append("good")
                for cs in copy_sets[n]:
                    out.append((tuple(roles), cs, rot))
    return out


def bounds(tier):
    return {"hosts": "1..4", "bad_classes": BAD, "copies": "1..3 per host (total <= 7)", "arrival_orders": "all distinct permutations",
            "configurations": len(configs(tier))}


def shards(tier):
    cfgs = configs(tier)
    n = 32
    return [("cfg", i, n) for i in range(n)]


def permutations_multiset(counts):
    """All distinct orders of a multiset given as {item: count}."""
    items = sorted(counts)
    total = sum(counts.values())
    cur = []

    def rec():
        if len(cur) == total:
            yield tuple(cur)
            return
        for it in items:
            if counts[it]:
                counts[it] -= 1
                cur.append(it)
                yield from rec()
                cur.pop()
                counts[it] += 1
    yield from rec()


def execute(roles, copies, rot, order):
    w = World()
    hosts = []
    for i, role in enumerate(roles):
        ip = f"10.2.0.{i + 10}"
        dg = good_datagram(i, ip) if role == "good" else bad_datagram(role, ip, rot + i)
        # replies come from the port the host listens on, from the device's TCP port, from an ephemeral port, or carry no
        # source port at all (0: RFC 768 makes the field optional)
        hosts.append(sd.Host(ip, dg, listen_port=6445 if (i + rot) % 2 == 0 else 20086, copies=copies[i],
                             src_port=(6445, 20086, 6444, 51234, 0)[(i + rot) % 5]))
    w.net.udp_responder = sd.Population(hosts, order=list(order))
    try:
        # every other configuration scans with the subnet-directed broadcast address instead of 255.255.255.255
        kw = {"target": "10.2.0.255"} if rot % 2 else {}
        out = w.run(Discover.discover(auto_connect=False, **kw))
        errs = w.loop_errors()
        return out, errs
    finally:
        w.close()


def run_shard(shard, tier) -> Stats:
    _, part, nparts = shard
    st = Stats()
    det = Determinism(first=2, every=499)
    cfgs = configs(tier)
    for ci in range(part, len(cfgs), nparts):
        roles, copies, rot = cfgs[ci]
        counts = {i: c for i, c in enumerate(copies)}
        want = sorted(f"10.2.0.{i + 10}" for i, r in enumerate(roles) if r == "good")
        for order in permutations_multiset(dict(counts)):
            case = {"roles": list(roles), "copies": list(copies), "rot": rot, "order": list(order)}
            out, errs = execute(roles, copies, rot, order)
            if det.due():
                o2, e2 = execute(roles, copies, rot, order)
                # which task's exception gather() re-raises depends on set iteration order (object addresses):
                # only the fact that it raised is part of the observation
                det.check((out[0], sorted(d.ip for d in out[1]) if out[0] == "ok" else "raised"),
                          (o2[0], sorted(d.ip for d in o2[1]) if o2[0] == "ok" else "raised"), case)
            prob = None
            if out[0] != "ok":
                prob = "discover raised"
            else:
                got = sorted(d.ip for d in out[1])
                if got != want:
                    prob = ("duplicate device for one host" if len(got) > len(set(got)) else
                            "good host missing" if set(want) - set(got) else "bad host reported")
                else:
                    for d in out[1]:
                        i = int(d.ip.rsplit(".", 1)[1]) - 10
                        if d.id != good_id(i) or d.name != good_name(i) or d.version not in (2, 3):
                            prob = "device reported with another host's identity"
            if prob:
                bads = "+".join(sorted(set(r for r in roles if r != "good"))) or "none"
                st.violation(f"{prob} (bad responders: {bads})", case, {"devices": want},
                             str(out[1])[:200] if out[0] != "ok" else sorted(d.ip for d in out[1]))
            st.transitions += len(order)
            st.state((ci, order[:3]))
            st.ev((ci, order), "one-per-good-host" if not prob else "spoiled", True,
                  sample=None if len(st.samples) or len(order) < 4 else case)
    st.reruns += det.reruns
    st.traces = st.evaluations
    return st


def replay(case):
    out, errs = execute(tuple(case["roles"]), tuple(case["copies"]), case["rot"], case["order"])
    return {"outcome": out[0], "devices": sorted(d.ip for d in out[1]) if out[0] == "ok" else str(out[1])[:200], "loop_errors": errs}
