"""C14 - Application containment: no device response makes an operation raise."""
from __future__ import annotations

from msmart.device import AirConditioner as AC

from .. import refcodec as rc
from ..refdevice import RefAC, cap_record
from ..report import Stats
from ..util import Rig, client_view_of, diff_view
from .c13 import CAP_ATTRS, rich_device, valid_frame

PROPERTY = "C14"
LEVEL = "fault_enumeration"
RULE = ("fault enumeration of response frames that pass validation: every valid response kind with its body truncated to every "
        "shorter length (CRC, length byte and checksum recomputed) and the raw frame cut at every byte; every count / size field set "
        "to every value 0..255; well-formed property answers with every id x every value byte 0..255 and every subset of <= 3 ids present; every response id 0..255 x bodies of length 0..30 (00 / FF / counting); group nibble 0..15; each bad "
        "frame as the only answer to refresh, apply, get_capabilities, toggle_display and start_self_clean, and mixed with a good "
        "state report in the same exchange (good+bad, bad+good, bad+good+bad); histories of two and three well-formed answers of one kind with "
        "very different contents (valid, all zero, all FF, other valid) on one client; every order of refresh / capability query / apply / display toggle "
        "against awkward but well-formed units; 30 consecutive exchanges answered only with bad frames. Oracle: nothing escapes the operation; in a mixed "
        "exchange the good frame is applied and the device is online. non-trivial = every case")
ASSUMPTIONS = ["all frames of a mixed exchange arrive before the library resumes (same virtual instant)"]
DRIVERS = ["refresh", "apply", "get_capabilities", "toggle_display", "start_self_clean", "refresh-props", "refresh-then-ops", "get_capabilities-2nd"]
KINDS = ["state", "caps", "props", "energy", "humidity"]


def bounds(tier):
    return {"truncation": "every body length 0..n-1 and every raw cut 0..n-1 of 5 response kinds", "field_values": "0..255",
            "response_ids": 256, "body_lengths": "0..30" if tier == "thorough" else [0, 1, 2, 3, 4, 5, 8, 12, 20, 30], "drivers": DRIVERS,
            "mixes": ["good+bad", "bad+good", "bad+good+bad"]}


def rebuild(body_wo_check: bytes, frame_type: int = 0x03, check="crc") -> bytes:
    return rc.frame_build(body_wo_check, frame_type, check=check)


def body_of(frame: bytes) -> bytes:
    return frame[10:-2]      # body without trailing check byte


def bad_frames(tier, group: str):
    """Yield (label, frame)."""
    if group == "trunc":
        for k in KINDS:
            f = valid_frame(k)
            b = body_of(f)
            for n in range(0, len(b)):
                yield (f"trunc {k} body={n}", rebuild(b[:n], f[9]))
            yield (f"trunc {k} nobody", rc.frame_build(b"", f[9], add_check=False))
            for n in range(0, len(f)):
                yield (f"cut {k} at={n}", f[:n])
            for n in range(0, 12):
                cut = bytearray(f[:n])
                if n >= 2:
                    cut[-1] = rc.checksum(bytes(cut[1:-1]))     # short frame whose checksum passes
                yield (f"cutfix {k} at={n}", bytes(cut))
    elif group == "fields":
        f = valid_frame("caps")
        b = bytearray(body_of(f))
        offs = [1]
        cur = 2
        while cur + 3 <= len(b) - 2:
            offs.append(cur + 2)
            cur += 3 + b[cur + 2]
        for o in offs:
            for v in range(256):
                m = bytearray(b)
                m[o] = v
                yield (f"caps field@{o}={v}", rebuild(bytes(m), 0x03))
        f = valid_frame("props")
        b = bytearray(body_of(f))
        offs = [1]
        cur = 2
        while cur + 4 <= len(b) - 1:
            offs += [cur + 2, cur + 3]
            cur += 4 + b[cur + 3]
        for o in offs:
            for v in range(256):
                m = bytearray(b)
                m[o] = v
                yield (f"props field@{o}={v}", rebuild(bytes(m), 0x03))
        f = valid_frame("energy")
        b = bytearray(body_of(f))
        for g in range(16):
            for L in (4, 5, 8, 16, 19, len(b)):
                m = bytearray(b[:L])
                if len(m) > 3:
                    m[3] = 0x40 | g
                yield (f"group={g} len={L}", rebuild(bytes(m), 0x03))
        # oversized frames
        for k in KINDS:
            f = valid_frame(k)
            b = body_of(f)
            for extra in (1, 40, 200):
                big = (b + bytes(extra))[:243]
                yield (f"oversized {k} +{extra}", rebuild(big, f[9]))
    elif group in ("propvals", "propsets"):
        from itertools import combinations
        pids = [0x0009, 0x000A, 0x0015, 0x0018, 0x001A, 0x0039, 0x0042, 0x0043, 0x0048, 0x004B, 0x00E3, 0x021E, 0x0227]

        def props(rid, recs, ft):
            body = bytearray([rid, len(recs)])
            for pid, val in recs:
                body += bytes([pid & 0xFF, pid >> 8, 0x00, len(val)]) + val
            return rebuild(bytes(body) + b"\x09", ft)
        if group == "propvals":
            # well-formed property answers: every id with every first value byte (sizes 1 and 2) ...
            for rid, ft in ((0xB1, 0x03), (0xB0, 0x02)):
                for pid in pids:
                    for v in range(256):
                        for size in (1, 2):
                            if size == 2 and tier != "thorough" and v % 17:
                                continue
                            yield (f"prop {rid:#x} id={pid:#06x} value={v} size={size}", props(rid, [(pid, bytes([v, 0x01][:size]))], ft))
        else:
            # ... and every subset of <= 3 ids answered (the others absent) with each of the values 0, 1, 2
            for rid, ft in ((0xB1, 0x03), (0xB0, 0x02)):
                for k in (1, 2, 3):
                    for sub in combinations(pids, k):
                        for v in (0, 1, 2):
                            yield (f"propset {rid:#x} ids={'+'.join(f'{x:x}' for x in sub)} value={v}", props(rid, [(x, bytes([v])) for x in sub], ft))
    else:
        lens = range(0, 31) if tier == "thorough" else [0, 1, 2, 3, 4, 5, 8, 12, 20, 30]
        lo, hi = (0, 128) if group == "ids-a" else (128, 256)
        for rid in range(lo, hi):
            for n in lens:
                for pat in range(3):
                    tail = [bytes(n), b"\xff" * n, bytes((i * 3 + 1) & 0xFF for i in range(n))][pat]
                    for ft in ((0x03,) if rid != 0xB5 else (0x03, 0x05)):
                        yield (f"id={rid:#04x} len={n} pat={pat} ft={ft}", rebuild(bytes([rid]) + tail, ft))


def shards(tier):
    out = []
    for g in ("trunc", "fields", "ids-a", "ids-b"):
        for d in DRIVERS:
            out.append((g, d, "alone"))
    for g in [f"propvals:{i}/6" for i in range(6)] + [f"propsets:{i}/2" for i in range(2)]:
        for d in ("refresh-props", "apply") + (("refresh",) if tier == "thorough" else ()):
            out.append((g, d, "alone"))
        out.append((g, "refresh-props", "bad+good"))
    for k in KINDS:
        out.append(("seq", k, "alone"))
    out.append(("orders", "all", "alone"))
    for g in ("trunc", "fields", "ids-a"):
        out.append(("streak", g, "alone"))
    for g in ("trunc", "fields"):
        for mix in ("good+bad", "bad+good", "bad+good+bad"):
            for d in ("refresh", "apply", "refresh-props"):
                out.append((g, d, mix))
    for g in ("trunc", "fields", "ids-a", "ids-b"):
        for mix in ("good+bad", "bad+good", "bad+good+bad"):
            out.append((g, "get_capabilities", mix))
    # DRIVERS already yields (group, "get_capabilities-2nd", "alone"); a silent second exchange is part of group trunc (empty frame)
    return out


def snapshot_props(ac):
    d = dict(ac.to_dict())
    d.pop("online")
    d.pop("supported")
    d["indoor_humidity"] = ac.indoor_humidity
    return d


def execute_sequential(frame: bytes, mix: str):
    """The frames of a mixed exchange delivered one per exchange, in the same order (refresh of a capability-aware client)."""
    dev_model = rich_device()
    cur = {"what": "honest"}

    def script(req):
        if cur["what"] == "bad":
            req.send(req.dev.wrap(req.conn, frame))
        else:
            for p in req.responses:
                req.send(p)

    rig = Rig(2, ac=dev_model, script=script)
    ac = rig.client()

    async def drive():
        await ac.get_capabilities()
        for what in {"good+bad": ["good", "bad"], "bad+good": ["bad", "good"], "bad+good+bad": ["bad", "good", "bad"]}[mix]:
            cur["what"] = what
            await ac.refresh()

    try:
        out = rig.run(drive())
        return out, snapshot_props(ac)
    finally:
        rig.close()


def execute(frame: bytes, driver: str, mix: str):
    dev_model = rich_device()
    good_state = dict(dev_model.state)

    armed = {"on": driver not in ("refresh-props", "get_capabilities-2nd")}
    tally = {}
    if driver == "get_capabilities-2nd":
        # two capability pages: the first answer is honest (and announces more), the second request gets the bad frame
        dev_model.cap_pages = [dev_model.cap_pages[0][:4], dev_model.cap_pages[0][4:]]

    def script(req):
        if driver == "get_capabilities-2nd" and req.frame is not None and len(req.frame) > 13 and req.frame[10] == 0xB5:
            armed["on"] = req.frame[12] == 0x01          # the 'additional capabilities' request
        if not armed["on"]:
            for p in req.responses:
                req.send(p)
            return
        good = req.responses[0] if req.responses else None
        bad = req.dev.wrap(req.conn, frame)
        seq = {"alone": [bad], "good+bad": [good, bad], "bad+good": [bad, good], "bad+good+bad": [bad, good, bad]}[mix]
        for p in seq:
            if p is not None:
                req.send(p)

    rig = Rig(2, ac=dev_model, script=script)
    ac = rig.client()

    async def drive():
        if driver == "refresh":
            await ac.refresh()
        elif driver == "apply":
            ac.power_state = True
            ac.operational_mode = AC.OperationalMode.HEAT
            ac.target_temperature = 27.5
            ac.fan_speed = 60
            ac.swing_mode = AC.SwingMode.VERTICAL
            ac.eco, ac.sleep, ac.freeze_protection, ac.purifier, ac.target_humidity = True, True, True, True, 55
            ac.horizontal_swing_angle = AC.SwingAngle.POS_3     # forces a property write as well
            await ac.apply()
        elif driver == "refresh-props":
            # a client that knows the capabilities also queries energy, humidity and properties on refresh
            await ac.get_capabilities()
            armed["on"] = True
            await ac.refresh()
        elif driver == "refresh-then-ops":
            # whatever a bad frame left behind must not break the operations that follow (honest device from here on)
            await ac.refresh()
            armed["on"] = False
            r0 = len(dev_model.rejected)
            await ac.apply()
            await ac.toggle_display()
            await ac.refresh()
            tally["rejected"] = [r[1] for r in dev_model.rejected[r0:] if not r[1].startswith("unknown")]
            tally["online"] = ac.online
            tally["diff"] = diff_view(client_view_of(dev_model.state), ac)
        elif driver in ("get_capabilities", "get_capabilities-2nd"):
            await ac.get_capabilities()
            tally["requests"] = len(dev_model.frames)
        elif driver == "toggle_display":
            await ac.toggle_display()
        else:
            await ac.start_self_clean()

    try:
        out = rig.run(drive())
        ac._c14_tally = tally
        return out, ac, rig.dev.ac
    finally:
        rig.close()


def caps_snapshot(ac):
    return {a: (list(getattr(ac, a)) if isinstance(getattr(ac, a), list) else getattr(ac, a)) for a in CAP_ATTRS}


def kind_of(frame: bytes):
    if len(frame) < 13:
        return None
    b = frame[10]
    if b == 0xC0:
        return "state"
    if b == 0xB5:
        return "caps"
    if b in (0xB0, 0xB1):
        return "props"
    if b == 0xC1 and len(frame) > 14:
        return {0x44: "energy", 0x45: "humidity"}.get(frame[13] & 0x4F if frame[13] & 0x40 else frame[13])
    return None


def seq_frames(kind: str):
    """Well-formed answers of one kind with very different contents (a history of them must not trip the client)."""
    v = valid_frame(kind)
    b = body_of(v)
    n = len(b)
    head = {"state": 1, "caps": 2, "props": 2, "energy": 4, "humidity": 4}[kind]
    out = [("valid", v), ("zeros", rebuild(b[:head] + bytes(n - head), v[9])), ("ones", rebuild(b[:head] + b"\xff" * (n - head), v[9])),
           ("valid2", rich_device_frame(kind))]
    if kind in ("caps", "props"):
        out.append(("count0", rebuild(b[:1] + b"\x00" + b[2:], v[9])))
        out[1] = ("zeros", rebuild(b[:1] + bytes(n - 1), v[9]))
    return out


def rich_device_frame(kind: str) -> bytes:
    dev = rich_device()
    if kind == "state":
        return dev.report(0x03, 3)
    if kind == "caps":
        return dev._caps_frame(0, 3)
    if kind == "props":
        return dev._props_frame(0xB1, [0x0009, 0x000A], 0x03, 3)
    if kind == "energy":
        return rc.frame_build(bytes([0xC1, 0x21, 0x01, 0x44]) + dev.energy + bytes([3]), 0x03)
    return rc.frame_build(bytes([0xC1, 0x21, 0x01, 0x45, dev.humidity_now]) + bytes(15) + bytes([3]), 0x03)


def run_seq(st: Stats, kind: str):
    """Histories of two and three well-formed answers of the same kind on one capability-aware client."""
    from itertools import product
    fr = seq_frames(kind)
    for seq in list(product(range(len(fr)), repeat=2)) + list(product(range(len(fr)), repeat=3)):
        cur = {"f": None}

        def script(req):
            for p in req.responses:
                honest_kind = kind_of(rc.v2_parse(p).frame)
                if cur["f"] is not None and honest_kind == kind:
                    req.send(req.dev.wrap(req.conn, cur["f"]))
                else:
                    req.send(p)

        rig = Rig(2, ac=rich_device(), script=script)
        ac = rig.client()
        ac.enable_energy_usage_requests = True

        async def drive():
            await ac.get_capabilities()
            await ac.refresh()
            for i in seq:
                cur["f"] = fr[i][1]
                if kind == "caps":
                    await ac.get_capabilities()
                await ac.refresh()
                await ac.apply()
            cur["f"] = None
            await ac.toggle_display()
            await ac.refresh()
            return ac.online

        label = "+".join(fr[i][0] for i in seq)
        case = {"label": f"seq {kind} {label}", "frame": b"", "driver": "seq", "mix": "alone", "kind": kind, "seq": list(seq)}
        try:
            out = rig.run(drive())
        finally:
            rig.close()
        prob = None
        if out[0] != "ok":
            prob = f"raised {type(out[1]).__name__}"
        elif not out[1]:
            prob = "device offline after an honest refresh that followed the sequence"
        if prob:
            st.violation(f"sequence of well-formed {kind} answers: {prob}", case, "no operation raises", prob, str(out[1])[:200])
        st.ev(("seq", kind, seq), "contained" if not prob else "escaped", True)


def run_orders(st: Stats):
    """Every order of the public operations on one client, against units whose answers are all well formed but awkward:
    a non-preset fan speed with a preset-only capability report, a full-featured unit, a unit with an empty capability list."""
    from itertools import permutations
    units = {
        "preset-only caps, fan 55": (dict(fan=55), [[cap_record(0x0210, 5), cap_record(0x0214, 1), cap_record(0x0212, 0), cap_record(0x0215, 0)]]),
        "full caps, fan 60": (dict(fan=60), rich_device().cap_pages),
        "empty caps, fan 1": (dict(fan=1), [[]]),
        "no modes / no swing caps, mode 5": (dict(mode=5, swing=0xF, eco=True, turbo=True, freeze=True, humidity=90),
                                             [[cap_record(0x0214, 9), cap_record(0x0215, 9), cap_record(0x0212, 0), cap_record(0x021A, 0), cap_record(0x0213, 0)]]),
    }
    ops = ["refresh", "get_capabilities", "apply", "toggle_display"]
    for uname, (state, pages) in units.items():
        for order in permutations(ops):
            for repeat in (1, 2):
                dev = rich_device()
                dev.state.update(state)
                dev.cap_pages = pages
                rig = Rig(2, ac=dev)
                ac = rig.client()

                async def drive():
                    for _ in range(repeat):
                        for op in order:
                            await getattr(ac, op)()
                    return ac.online

                try:
                    out = rig.run(drive())
                finally:
                    rig.close()
                case = {"label": f"orders {uname}: {'>'.join(order)} x{repeat}", "frame": b"", "driver": "orders", "mix": "alone"}
                prob = None
                if out[0] != "ok":
                    prob = f"raised {type(out[1]).__name__}"
                elif [r for r in dev.rejected if not r[1].startswith("unknown")]:
                    # (a command kind the reference unit does not know is C12's business, not a containment failure)
                    prob = f"sent a malformed command: {[r for r in dev.rejected if not r[1].startswith('unknown')][0][1]}"
                if prob:
                    st.violation(f"operation order on a well-formed unit ({uname}): {prob.split(':')[0]}", case, "no operation raises", prob, str(out[1])[:200])
                st.ev(("orders", uname, order, repeat), "contained" if not prob else "escaped", True)


def run_streak(st: Stats, tier, group: str):
    """Repetition bound: 30 consecutive exchanges on one client that are all answered with (different) bad frames."""
    frames = [f for _, f in bad_frames(tier, group)]
    for driver in ("refresh", "apply", "get_capabilities", "toggle_display"):
        for start in range(0, min(len(frames), 3000), 997):
            cur = {"i": start, "bad": True}

            def script(req):
                if not cur["bad"]:
                    for p in req.responses:
                        req.send(p)
                    return
                cur["i"] += 1
                req.send(req.dev.wrap(req.conn, frames[cur["i"] % len(frames)]))

            rig = Rig(2, ac=rich_device(), script=script)
            ac = rig.client()

            async def drive():
                for _ in range(30):
                    await getattr(ac, driver)()
                cur["bad"] = False
                await ac.refresh()
                return ac.online

            try:
                out = rig.run(drive())
            finally:
                rig.close()
            case = {"label": f"streak {group} from {start}", "frame": b"", "driver": "streak", "mix": "alone", "group": group}
            prob = None
            if out[0] != "ok":
                prob = f"{driver} raised {type(out[1]).__name__}"
            elif not out[1]:
                prob = "device offline in the honest refresh after the streak"
            if prob:
                st.violation(f"30 consecutive bad answers ({group}): {prob}", case, "no operation raises", prob, str(out[1])[:200])
            st.ev(("streak", group, driver, start), "contained" if not prob else "escaped", True)


def run_shard(shard, tier) -> Stats:
    group, driver, mix = shard
    if group == "orders":
        st = Stats()
        run_orders(st)
        return st
    if group == "streak":
        st = Stats()
        run_streak(st, tier, driver)
        return st
    if group == "seq":
        st = Stats()
        run_seq(st, driver)
        return st
    part, nparts = 0, 1
    if ":" in group:
        group, frac = group.split(":")
        part, nparts = (int(x) for x in frac.split("/"))
    st = Stats()
    caps_base = None
    if driver == "get_capabilities" and mix != "alone":
        o, a, _ = execute(valid_frame("state"), driver, "good+bad")
        caps_base = caps_snapshot(a)
        fresh = caps_snapshot(Rig(2).client())
        assert o[0] == "ok" and caps_base != fresh, "baseline capabilities must differ from the defaults"
    for idx, (label, frame) in enumerate(bad_frames(tier, group)):
        if idx % nparts != part:
            continue
        case = {"label": label, "frame": frame, "driver": driver, "mix": mix}
        out, ac, devmodel = execute(frame, driver, mix)
        prob = None
        if out[0] != "ok":
            prob = f"{driver} raised {type(out[1]).__name__}"
        elif driver == "get_capabilities-2nd" and mix == "alone":
            # the first page must still be applied when the second request yields nothing usable
            fresh_modes = caps_snapshot(Rig(2).client())
            if caps_snapshot(ac) == fresh_modes and not (len(frame) > 11 and frame[10] == 0xB5 and frame[9] == 0x03):
                prob = "first capabilities page not applied when the additional request is answered with a bad frame"
        elif driver == "refresh-then-ops":
            t = ac._c14_tally
            if t.get("rejected"):
                prob = f"operation after a bad frame sent a command the device rejects: {t['rejected'][0]}"
            elif not t.get("online") or t.get("diff"):
                prob = f"operations after a bad frame do not recover: online={t.get('online')} diff={t.get('diff')}"
        elif mix != "alone" and driver in ("refresh", "apply", "refresh-props"):
            # the good state report of the same exchange must have been applied
            want = client_view_of(devmodel.state)
            d = diff_view(want, ac)
            # a bad frame that happens to be a decodable state/property report may legitimately overwrite fields
            decodable_state = len(frame) > 11 and frame[10] == 0xC0
            if driver.startswith("refresh") and not ac.online:
                prob = "good frame of a mixed exchange not delivered (offline)"
            elif d and not decodable_state:
                prob = "good frame of a mixed exchange not applied: " + ",".join(d)
            elif driver == "refresh-props" and not (len(frame) > 11 and frame[10] in (0xB0, 0xB1, 0xC1, 0xC0)):
                # property, energy and humidity answers of the same refresh must have been applied as well
                got = (int(ac.horizontal_swing_angle), int(ac.vertical_swing_angle), ac.indoor_humidity, ac.total_energy_usage)
                want_p = (devmodel.props[0x000A][0], devmodel.props[0x0009][0], devmodel.humidity_now, 567.92)
                if got != want_p:
                    prob = f"good property/energy/humidity frames of a mixed exchange not applied: {got} != {want_p}"
        elif caps_base is not None:
            decodable_caps = len(frame) > 11 and frame[10] == 0xB5 and frame[9] == 0x03
            if not decodable_caps and caps_snapshot(ac) != caps_base:
                prob = "good capabilities response of a mixed exchange not applied"
        if prob is None and driver == "refresh-props" and mix != "alone" and len(frame) > 11 and frame[10] in (0xB0, 0xB1):
            # response objects are independent: a refresh answered with mixed frames ends in the same state as the same frames
            # delivered one refresh each, in order.  Only for property-family bad frames: they touch nothing but property
            # attributes, whose final value is decided by the last (property) exchange in both deliveries.
            o2, seq = execute_sequential(frame, mix)
            if o2[0] == "ok" and snapshot_props(ac) != seq:
                mixed = snapshot_props(ac)
                ch = [k for k in seq if seq[k] != mixed[k]]
                prob = "mixed exchange differs from the same frames delivered one exchange each: " + ",".join(ch[:4])
        if prob:
            what = label.split(" ")[0] + " " + (label.split(" ")[1] if label.startswith(("trunc", "cut", "oversized")) else "")
            st.violation(f"{what.strip()} [{mix}]: {prob.split(':')[0]}", case, "operation returns; good frames applied", prob,
                         str(out[1])[:200] if out[0] != "ok" else "")
        st.ev((label, driver, mix), "contained" if not prob else "escaped", True,
              sample=None if len(st.samples) else {"label": label, "frame": frame.hex(), "driver": driver, "mix": mix})
    return st


def replay(case):
    if case.get("driver") == "orders":
        st = Stats()
        run_orders(st)
        return sorted(st.viol_counts)
    if case.get("driver") == "streak":
        st = Stats()
        run_streak(st, "quick", case["group"])
        return sorted(st.viol_counts)
    if case.get("driver") == "seq":
        st = Stats()
        run_seq(st, case["kind"])
        return sorted(st.viol_counts)
    out, ac, dm = execute(case["frame"], case["driver"], case["mix"])
    res = {"outcome": str(out)[:300], "online": ac.online, "after": getattr(ac, "_c14_tally", None)}
    if case["driver"] == "refresh-props" and case["mix"] != "alone":
        o2, seq = execute_sequential(case["frame"], case["mix"])
        mixed = snapshot_props(ac)
        res["mixed_vs_sequential_differences"] = {k: (mixed[k], seq[k]) for k in seq if seq[k] != mixed[k]}
    return res
