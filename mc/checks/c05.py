"""C05 - V3 encrypted packet codec: interoperable for every length, tamper-evident."""
from __future__ import annotations

from msmart.lan import LAN, ProtocolError

from .. import alphabet as al
from .. import refcodec as rc
from ..harness import Determinism, World, exc_class, filler
from ..report import Stats
from ..simdev import SimDevice

PROPERTY = "C05"
LEVEL = "exploration"
RULE = ("bounded-exhaustive enumeration (E1): payload length x packet counter x session key, each encoded by the "
        "library and parsed by the independent reference codec, and each reference-built response decoded by the "
        "library (direct seam and through the simulated wire); every single-bit flip of reference-built responses "
        "for all 16 padding residues at the packet seam (every other flip right after the authentic packet was accepted by the same "
        "protocol object) and through LAN.send; payloads built from the protocol's own literals (ERROR, 8370, 5A5A, pad bytes) alone and "
        "at either end of ordinary data; runs of up to 40 tampered responses on one protocol object followed by genuine traffic. A case is (part,key,length,counter[,bit]); "
        "non-trivial = payload length > 0 or tamper case")
ASSUMPTIONS = [
    "AES single-block primitive of pycryptodome and hashlib SHA-256/MD5 are correct (reference codec does its own CBC chaining, padding and framing)",
    "session keys come from a real handshake against the reference device model",
    "the type-nibble flip 3->1 at the packet seam is dispatched to the handshake decoder; it is rejected at LAN.send level (checked in part tamperA) and recorded, not flagged, at the packet seam",
]
IP, PORT = "10.0.0.7", 6444
COUNTERS = [0, 1, 255, 256, 4094, 4095]


def bounds(tier):
    return {"lengths": "0..300", "counters": "all 4096 x 16 residues; %s" % (
        "full 301x4096 for one key" if tier == "thorough" else "6 boundary counters x all lengths x 6 keys"),
        "keys": len(al.keys()), "tamper_residues": 16 if tier == "thorough" else 16}


def shards(tier):
    out = []
    nk = len(al.keys())
    for k in range(nk):
        for lo in range(0, 301, 76):
            out.append(("enc", k, lo, min(lo + 76, 301)))
    for k in range(nk):
        out.append(("magic", k, 0, 0))
    for lo in range(0, 4096, 512):
        out.append(("ctr", 0, lo, lo + 512))
    out.append(("session", 1, 0, 70000))
    for k in range(nk):
        out.append(("rekey", k, 0, 0))
    for r in range(16):
        out.append(("tamperB", r % nk, r, 0))
    for k in range(nk):
        out.append(("streak", k, 0, 0))
    for r in (range(16) if tier == "thorough" else (0, 6, 10, 15)):
        for part in range(4):
            out.append(("tamperA", (r + 1) % nk, r, part))
    if tier == "thorough":
        for lo in range(0, 301, 10):
            out.append(("full", 4, lo, min(lo + 10, 301)))
    return out


class Session:
    """An authenticated V3 LAN object against the reference device."""

    def __init__(self, kidx: int) -> None:
        self.w = World()
        self.key = al.keys()[kidx]
        self.token = al.tokens()[kidx % len(al.tokens())]
        self.dev = SimDevice(version=3, token=self.token, key=self.key, device_id=0x1234)
        self.w.net.listen(IP, PORT, self.dev)
        self.lan = LAN(IP, PORT, 0x1234)
        out = self.w.run(self.lan.authenticate(self.token, self.key))
        if out[0] != "ok":
            raise RuntimeError(f"could not authenticate against the reference device: {out}")
        self.proto = self.lan._protocol
        self.conn = self.w.net.conns[-1]
        self.sk = self.conn.state["session_key"]

    def close(self):
        self.w.close()


def _check_request(st: Stats, part, kidx, sk, n, c, pkt, payload):
    key = (part, kidx, n, c)
    try:
        p = rc.v3_parse(bytes(pkt), sk)
        prob = None
        if p.ptype != rc.T_ENC_REQ:
            prob = f"type {p.ptype}"
        elif p.counter != (c & 0xFFFF):
            prob = f"counter {p.counter} != {c}"
        elif p.payload != payload:
            prob = "payload differs"
    except rc.RefError as e:
        prob = str(e)
    if prob:
        st.violation(f"request residue={(n + 2) % 16} {prob.split(' (')[0][:40]}", {"part": part, "key": kidx, "len": n, "counter": c},
                     "reference codec decodes the same payload and counter", prob, f"packet={bytes(pkt).hex()[:200]}")
    st.ev(key + ("req",), "req-ok" if not prob else "req-bad", n > 0)


def _check_response(st: Stats, part, kidx, sess, n, c, payload, wire=False):
    resp = rc.v3_build_encrypted(sess.sk, c, payload, rc.T_ENC_RESP)
    key = (part, kidx, n, c, "resp", wire)
    try:
        if wire:
            sess.conn.deliver(resp, 0.01)
            out = sess.w.run(sess.proto.read())
            if out[0] != "ok":
                raise out[1] if out[0] == "exc" else RuntimeError("deadlock")
            got = out[1]
        else:
            with memoryview(resp) as mv:
                got = sess.proto._process_packet(mv)
        prob = None if got == payload else f"decoded {len(got)} bytes, sent {len(payload)}"
    except Exception as e:  # noqa: BLE001
        prob = f"{type(e).__name__}"
    if prob:
        st.violation(f"response residue={(n + 2) % 16} {prob.split(',')[0] if 'decoded' not in prob else 'wrong payload'}",
                     {"part": part, "key": kidx, "len": n, "counter": c, "wire": wire},
                     "library returns exactly the payload", prob, f"packet={resp.hex()[:200]}")
    st.ev(key, "resp-ok" if not prob else "resp-bad", n > 0)


def run_shard(shard, tier) -> Stats:
    part, kidx, a, b = shard
    st = Stats()
    sess = Session(kidx)
    try:
        if part in ("enc", "full"):
            ctrs = COUNTERS if part == "enc" else range(4096)
            held = None
            for n in range(a, b):
                payload = al.payload("c05", n, 4 if n % 3 else 2)
                for c in ctrs:
                    try:
                        pkt = sess.proto._encode_encrypted_request(c, payload)
                    except Exception as e:  # noqa: BLE001
                        st.violation(f"request residue={(n + 2) % 16} encode raised {type(e).__name__}",
                                     {"part": part, "key": kidx, "len": n, "counter": c}, "a packet", str(e)[:100])
                        st.ev((part, kidx, n, c, "req"), "req-bad", True)
                        continue
                    # a packet that was handed out (a transport may still hold the very object while it waits for the socket)
                    # must stay what it was when the next one is encoded
                    if held is not None and bytes(held[0]) != held[1]:
                        st.violation("an encoded request changed when the next one was encoded",
                                     {"part": part, "key": kidx, "len": n, "counter": c}, held[1].hex()[:80], bytes(held[0]).hex()[:80])
                    held = (pkt, bytes(pkt))
                    _check_request(st, part, kidx, sess.sk, n, c, pkt, payload)
                    if part == "enc" or c % 64 == 0:
                        _check_response(st, part, kidx, sess, n, c, payload)
                if part == "enc":
                    _check_response(st, part, kidx, sess, n, 7, payload, wire=True)
            if part == "enc" and st.samples == []:
                st.samples.append({"part": part, "key": kidx, "len": a, "counter": 0,
                                   "request": bytes(sess.proto._encode_encrypted_request(0, al.payload("c05", a, 2))).hex()})
        elif part == "magic":
            # payloads made of the protocol's own literals (what the library itself compares received bytes with), alone and
            # embedded at either end of ordinary data: content must never change how a verified packet is treated
            lits = [b"ERROR", b"error", b"\x83\x70", b"\x5a\x5a", b"\xaa", b"\x20", b"\x00", b"\xff", b"\x10" * 16, b"\x01", b"\x0f" * 15]
            pls = []
            for lit in lits:
                for rep in (1, 2, 7):
                    pls.append(lit * rep)
                for k in (3, 11, 27):
                    pls.append(lit + al.payload("c05m", k, 3))
                    pls.append(al.payload("c05m", k, 3) + lit)
            for i, payload in enumerate(pls):
                n = len(payload)
                for c in (0, 7, 4095):
                    try:
                        pkt = sess.proto._encode_encrypted_request(c, payload)
                        _check_request(st, f"magic{i}", kidx, sess.sk, n, c, pkt, payload)
                    except Exception as e:  # noqa: BLE001
                        st.violation(f"request with literal payload: encode raised {type(e).__name__}",
                                     {"part": part, "key": kidx, "index": i, "counter": c}, "a packet", str(e)[:100])
                    _check_response(st, f"magic{i}", kidx, sess, n, c, payload)
                _check_response(st, f"magic{i}", kidx, sess, n, 7, payload, wire=True)
        elif part == "ctr":
            for c in range(a, b):
                for r in range(16):
                    n = 32 + r
                    payload = al.payload("c05c", n, 3)
                    try:
                        pkt = sess.proto._encode_encrypted_request(c, payload)
                    except Exception as e:  # noqa: BLE001
                        st.violation(f"request counter encode raised {type(e).__name__}",
                                     {"part": part, "key": kidx, "len": n, "counter": c}, "a packet", str(e)[:100])
                        continue
                    _check_request(st, part, kidx, sess.sk, n, c, pkt, payload)
                    _check_response(st, part, kidx, sess, n, c, payload)
        elif part == "session":
            # real write() path: counters as the peer sees them over a >4096 packet session
            seen = []
            sess.dev.on_enc_request = lambda conn, p, entry: seen.append((p.counter, p.payload))
            first = len(sess.dev.rx)
            for i in range(a, b):
                payload = al.payload("c05s", i % 48, 3)
                try:
                    sess.proto.write(payload)
                except Exception as e:  # noqa: BLE001
                    st.violation(f"session write raised {type(e).__name__} at packet {i}", {"part": part, "index": i}, "written", str(e)[:100])
                    break
            bad = [e for e in sess.dev.rx[first:] if not e["ok"]]
            if bad:
                st.violation("session packet rejected by reference device", {"part": part, "index": sess.dev.rx.index(bad[0]) - first},
                             "every written packet verifies under the session key", bad[0].get("error"))
            prev = None
            for i, (c, pl) in enumerate(seen):
                want = al.payload("c05s", i % 48, 3)
                if pl != want:
                    st.violation("session payload differs", {"part": part, "index": i}, want, pl)
                if prev is not None and c != prev + 1 and not (c == 0 and prev + 1 in tuple(1 << k for k in range(8, 17))):
                    st.violation(f"session counter step {prev}->{c}", {"part": part, "index": i}, prev + 1, c)
                prev = c
                st.ev((part, i), "session-ok", True)
            if len(seen) != b - a:
                st.violation("session packet count", {"part": part}, b - a, len(seen))
        elif part == "rekey":
            # the same protocol object (live connection) obtains a new session key by a second / third handshake
            for round_ in range(3):
                sk = sess.conn.state["session_key"]
                for n in (0, 1, 14, 15, 30, 100):
                    payload = al.payload("c05r", n, 3)
                    c = 3 + round_
                    try:
                        pkt = sess.proto._encode_encrypted_request(c, payload)
                        _check_request(st, f"rekey{round_}", kidx, sk, n, c, pkt, payload)
                    except Exception as e:  # noqa: BLE001
                        st.violation(f"request after re-handshake: encode raised {type(e).__name__}", {"part": part, "round": round_}, "a packet", str(e)[:80])
                    sess.sk = sk
                    _check_response(st, f"rekey{round_}", kidx, sess, n, c, payload)
                    _check_response(st, f"rekey{round_}", kidx, sess, n, c, payload, wire=True)
                out = sess.w.run(sess.lan.authenticate(sess.token, sess.key))
                if out[0] != "ok":
                    st.violation(f"re-handshake on the live connection failed: {exc_class(out)}", {"part": part, "round": round_}, "ok", str(out[1])[:80])
                    break
                if sess.conn.state["session_key"] == sk:
                    raise RuntimeError("reference device did not issue a new session key")
        elif part == "tamperB":
            r = a
            n = next(x for x in range(20, 40) if (x + 2) % 16 == r)
            payload = al.payload("c05t", n, 3)
            resp = rc.v3_build_encrypted(sess.sk, 9, payload, rc.T_ENC_RESP)
            for bit in range(len(resp) * 8):
                m = bytearray(resp)
                m[bit // 8] ^= 1 << (bit % 8)
                m = bytes(m)
                if bit % 2:
                    # history: the authentic packet was received and accepted just before its damaged copy
                    with memoryview(resp) as mv:
                        if sess.proto._process_packet(mv) != payload:
                            st.violation(f"tamper packet-seam residue={r}: authentic response not decoded", {"part": part, "residue": r, "bit": None},
                                         "payload", "different")
                try:
                    with memoryview(m) as mv:
                        got = sess.proto._process_packet(mv)
                    outcome = "returned"
                except ProtocolError:
                    outcome, got = "ProtocolError", None
                except Exception as e:  # noqa: BLE001
                    outcome, got = type(e).__name__, None
                if outcome == "returned" and (m[5] & 0xF) == rc.T_HANDSHAKE_RESP:
                    outcome = "type3->1-handshake-decoder"
                elif outcome != "ProtocolError":
                    st.violation(f"tamper packet-seam residue={r} field={_field(bit // 8, len(resp))} -> {outcome}",
                                 {"part": part, "residue": r, "bit": bit}, "ProtocolError", outcome,
                                 f"returned={got.hex() if got else None}")
                st.ev((part, r, bit), outcome, True)
        elif part == "streak":
            # repetition bound: runs of 1..40 tampered responses on one protocol object, each run followed by a genuine
            # response and a request, which must still work under the same session key
            payload = al.payload("c05k", 37, 3)
            for run in (1, 2, 5, 8, 9, 16, 40):
                for j in range(run):
                    resp = bytearray(rc.v3_build_encrypted(sess.sk, j, payload, rc.T_ENC_RESP))
                    bit = 64 + (j * 53 + run * 7) % ((len(resp) - 8) * 8)
                    resp[bit // 8] ^= 1 << (bit % 8)
                    try:
                        with memoryview(bytes(resp)) as mv:
                            sess.proto._process_packet(mv)
                        outcome = "returned"
                    except ProtocolError:
                        outcome = "ProtocolError"
                    except Exception as e:  # noqa: BLE001
                        outcome = type(e).__name__
                    if outcome != "ProtocolError":
                        st.violation(f"streak: tampered response {j + 1 if j < 2 else 'n'} of a run -> {outcome}", {"part": part, "key": kidx, "run": run, "index": j},
                                     "ProtocolError", outcome)
                    st.ev((part, kidx, run, j), outcome, True)
                _check_response(st, f"after-streak{run}", kidx, sess, len(payload), 5, payload)
                try:
                    pkt = sess.proto._encode_encrypted_request(6, payload)
                    _check_request(st, f"after-streak{run}", kidx, sess.sk, len(payload), 6, pkt, payload)
                except Exception as e:  # noqa: BLE001
                    st.violation(f"request after a run of tampered responses: encode raised {type(e).__name__}", {"part": part, "key": kidx, "run": run}, "a packet", str(e)[:80])
        elif part == "tamperA":
            _tamper_wire(st, sess, a, b)
    finally:
        sess.close()
    return st


def _field(i, n):
    if i < 2:
        return "marker"
    if i < 4:
        return "size"
    if i == 4:
        return "magic"
    if i == 5:
        return "padtype"
    if i >= n - 32:
        return "tag"
    return "cipher"


def _tamper_wire(st: Stats, sess0: Session, r: int, quarter: int):
    """Bit flips of the encrypted reply delivered to LAN.send; trailing filler reaches every padding residue."""
    sess0.close()
    frame = bytes.fromhex("aa23ac00000000000303c00145660000003c0010045c6800000000000000000000018426")
    v2 = rc.v2_build(frame, 0x1234)
    # v2 is 56+16k bytes => (len+2)%16 == 10; add trailing filler to reach residue r
    extra = (r - 10) % 16
    payload = v2 + filler("c05/trail", extra)
    det = Determinism(first=3, every=499)

    def execute(bit):
        sess = Session((r + 1) % len(al.keys()))
        try:
            def on_req(conn, p, entry):
                resp = bytearray(rc.v3_build_encrypted(conn.state["session_key"], conn.state["tx_counter"], payload))
                conn.state["tx_counter"] += 1
                if bit is not None:
                    resp[bit // 8] ^= 1 << (bit % 8)
                conn.deliver(bytes(resp), 0.01)
            sess.dev.on_enc_request = on_req
            out = sess.w.run(sess.lan.send(frame))
            return (exc_class(out), out[1] if out[0] == "ok" else str(out[1]), round(sess.w.now(), 3))
        finally:
            sess.close()

    base = execute(None)
    if base[0] != "ok" or base[1] != [frame]:
        st.violation(f"wire residue={r} untampered reply not decoded", {"part": "tamperA", "residue": r, "bit": None}, [frame], base)
    nbits = (6 + 2 + len(payload) + (16 - (len(payload) + 2) % 16) % 16 + 32) * 8
    lo, hi = quarter * nbits // 4, (quarter + 1) * nbits // 4
    for bit in range(lo, hi):
        obs = execute(bit)
        if det.due():
            det.check(obs, execute(bit), ("tamperA", r, bit))
        if obs[0] == "ok":
            st.violation(f"tamper wire residue={r} field={_field(bit // 8, nbits // 8)} accepted",
                         {"part": "tamperA", "residue": r, "bit": bit}, "ProtocolError or TimeoutError", obs)
        elif obs[0] not in ("ProtocolError", "AuthenticationError", "TimeoutError"):
            st.violation(f"tamper wire residue={r} field={_field(bit // 8, nbits // 8)} -> {obs[0]}",
                         {"part": "tamperA", "residue": r, "bit": bit}, "ProtocolError or TimeoutError", obs)
        st.ev(("tamperA", r, bit), obs[0], True)
    st.reruns += det.reruns


def replay(case):
    part = case["part"]
    if part == "tamperA":
        st = Stats()
        sess = Session(0)
        bit = case["bit"]
        _tamper_wire(st, sess, case["residue"], 0)
        return {"violations": sorted(st.viol_counts)}
    kidx = case.get("key", 0)
    sess = Session(kidx)
    try:
        st = Stats()
        if part == "tamperB":
            return run_shard(("tamperB", kidx, case["residue"], 0), "quick").viol_counts
        n, c = case["len"], case["counter"]
        payload = al.payload("c05c" if part == "ctr" else "c05", n, 3 if part == "ctr" else (4 if n % 3 else 2))
        pkt = sess.proto._encode_encrypted_request(c, payload)
        _check_request(st, part, kidx, sess.sk, n, c, pkt, payload)
        _check_response(st, part, kidx, sess, n, c, payload, wire=case.get("wire", False))
        return {"violations": dict(st.viol_counts), "detail": list(st.violations.values())}
    finally:
        sess.close()
