"""C08 - Retry, timeout and recovery contract of an exchange."""
from __future__ import annotations

import asyncio
from itertools import product

from msmart.device import AirConditioner as AC
from msmart.lan import LAN

from .. import refcodec as rc
from ..harness import Determinism, World, exc_class, filler
from ..refdevice import RefAC
from ..report import Stats
from ..simdev import SimDevice
from ..util import client_view_of, diff_view
from ..vloop import SimNet

PROPERTY = "C08"
LEVEL = "model_checking"
RULE = ("Part A (schedules): retries r in 1..4, every pattern of per-transmission answer delay from {none, 0.005, 0.5, 0.95, 1.05, "
        "1.5, 2.25} x T (7^r), T = the library's read timeout as measured against a silent device, V2 and V3; the device-side log of transmissions (count, instants) and the outcome are compared "
        "with a 6-line reference model of the retry contract; the r=3 patterns also through AirConditioner.refresh (online flag). "
        "Part B (fault sequences, E2): every single fault and every ordered pair of consecutive faults from {drop, all answers late (arriving only after the exchange gave up), error packet, "
        "marker-free garbage, marker-bearing garbage, peer close} x {handshake, data phase}, connect refused / unreachable / unresolvable / hanging, "
        "cancellation at every interval between loop events, from start states {cold, warm, peer-closed idle, auth expired}; "
        "then one exchange with an honest prompt device must succeed with no user call in between (V3: after a new handshake). Also: a two-exchange "
        "refresh whose first exchange alone meets each fault; the implicit V3 handshake of an exchange with its first k requests lost (k = 0 .. budget + 1); a connection that carried > 65536 packets before its authentication expired. "
        "state = (protocol, start, fault history) ; transition = one exchange")
ASSUMPTIONS = ["operations of a history do not overlap", "answer delays are off the 2 s grid so no environment event ties with a library timer",
               "the user has authenticated once (honestly) before faults start; re-authentication afterwards is the library's job"]
IP, PORT = "10.0.0.8", 6444
CMD = bytes.fromhex("aa21ac8d000000000003418100ff03ff000200000000000000000000000003016971")
# answer delays as fractions of the library's own read timeout T (2 s today), which is MEASURED, not assumed:
# the property fixes the retry contract, not the constant
FRACTIONS = [None, 0.005, 0.5, 0.95, 1.05, 1.5, 2.25]
FRACTIONS_T = [None, 0.005, 0.25, 0.5, 0.95, 0.9995, 1.0005, 1.05, 1.5, 1.9995, 2.25, 2.95, 3.05]
_T = {}


def read_timeout(version) -> float:
    """Gap between the first two transmissions to a silent device."""
    if version not in _T:
        out, tx, _ = exec_A(version, 4, (None, None, None, None), calibrating=True)
        if len(tx) >= 2 and tx[1] - tx[0] > 0:
            _T[version] = round(tx[1] - tx[0], 6)
        else:
            _T[version] = 2.0      # documented value; the retry model below will then report what is wrong
    return _T[version]


def delays_for(version, fractions):
    T = read_timeout(version)
    return [None if f is None else round(f * T, 6) for f in fractions]


def bounds(tier):
    return {"retries": [1, 2, 3, 4], "delay_alphabet_as_fraction_of_measured_read_timeout": FRACTIONS_T if tier == "thorough" else FRACTIONS,
            "fault_depth": 3 if tier == "thorough" else 2, "protocols": [2, 3],
            "starts": ["cold", "warm", "closed", "expired"]}


def shards(tier):
    out = []
    if tier == "thorough":
        for v in (2, 3):
            for r in (1, 2, 3):
                for part in range(4):
                    out.append(("AT", v, r, part, 4))
            for start in range(4 if v == 3 else 3):
                for part in range(8):
                    out.append(("B3", v, start, part, 8))
    for v in (2, 3):
        for r in (1, 2, 3):
            out.append(("A", v, r, 0, 1))
        for part in range(7):
            out.append(("A", v, 4, part, 7))
        out.append(("Aref", v, 3, 0, 1))
        for start in range(4 if v == 3 else 3):
            for part in range(4):
                out.append(("B", v, start, part, 4))
        out.append(("B1", v, 1, 0, 1))
    out.append(("Bworn", 3, 4, 0, 1))
    out.append(("AH", 3, 0, 0, 1))
    return out


# ---------------------------------------------------------------- part A
def model_A(r, delays, T=2.0):
    arrivals = []
    count = 0
    for i in range(r):
        if any(x < T * i for x in arrivals):
            break
        count += 1
        if delays[i] is not None:
            arrivals.append(T * i + delays[i])
    a = min(arrivals) if arrivals else None
    ok = a is not None and a < T * r
    nframes = sum(1 for x in arrivals if abs(x - a) < 1e-9) if ok else 0
    return count, ok, a, nframes


followup = {}


def exec_A(version, r, delays, via_refresh=False, calibrating=False, second_silent=False):
    followup.clear()
    settle = 20.0 if calibrating else r * read_timeout(version) + 6.0
    w = World()
    token, key = filler("c08/tok", 64), filler("c08/key", 32)
    tx = []
    tx2 = []
    phase = {"second": False, "second_silent": second_silent}

    def script(req):
        if req.kind == "handshake":
            for p in req.responses:
                req.send(p)
            return
        if phase["second"]:
            tx2.append(w.now())
            if not phase.get("second_silent"):
                for p in req.responses:
                    req.send(p)
            return
        i = len(tx)
        tx.append(w.now())
        d = delays[i] if i < len(delays) else None
        if d is not None:
            for p in req.responses:
                req.send(p, d)

    dev = SimDevice(version=version, token=token, key=key, device_id=5, script=script)
    w.net.listen(IP, PORT, dev)
    frame = dev.ac.report(0x03, 0)

    if via_refresh:
        ac = AC(ip=IP, port=PORT, device_id=5)

        async def drive():
            if version == 3:
                await ac.authenticate(token, key)
            await ac.refresh()
            return ac.online, w.now()
    else:
        lan = LAN(IP, PORT, 5)

        async def drive():
            if version == 3:
                await lan.authenticate(token, key)
            try:
                first = ("ok", (await lan.send(CMD, retries=r), w.now()))
            except BaseException as e:  # noqa: BLE001
                first = ("exc", e)
            # let every late reply of the first exchange land, then a second exchange with a prompt device:
            # it must transmit its request (exactly once) whatever is still queued from before
            await asyncio.sleep(settle)
            phase["second"] = True
            try:
                second = ("ok", len(await lan.send(CMD, retries=r)))
            except BaseException as e:  # noqa: BLE001
                second = ("exc", type(e).__name__)
            followup["second"] = second
            followup["tx2"] = list(tx2)
            if first[0] == "exc":
                raise first[1]
            return first[1]
    try:
        out = w.run(drive())
        return out, tx, w.now()
    finally:
        w.close()


def run_A(st: Stats, version, r, part, nparts, via_refresh=False, alphabet=None):
    det = Determinism(first=3, every=307)
    T = read_timeout(version)
    for idx, delays in enumerate(product(delays_for(version, alphabet or FRACTIONS), repeat=r)):
        if idx % nparts != part:
            continue
        case = {"part": "A", "version": version, "retries": r, "delays": list(delays), "refresh": via_refresh}
        out, tx, tend = exec_A(version, r, delays, via_refresh)
        if det.due():
            o2, tx2, _ = exec_A(version, r, delays, via_refresh)
            det.check((str(out), tx), (str(o2), tx2), case)
        count, ok, a, nframes = model_A(r, delays, T)
        prob = None
        t0 = tx[0] if tx else 0.0
        rel = [round(t - t0, 6) for t in tx]
        if len(tx) != count:
            prob = f"{len(tx)} transmissions, contract says {count}"
        elif any(abs(rel[i] - T * i) > 1e-6 for i in range(len(rel))):
            prob = f"transmission instants {rel} (read timeout measured as {T})"
        elif via_refresh:
            if out[0] != "ok":
                prob = f"refresh raised {exc_class(out)}"
            elif out[1][0] != ok:
                prob = f"online={out[1][0]} but response {'arrived' if ok else 'never arrived'}"
        elif ok:
            if out[0] != "ok":
                prob = f"raised {exc_class(out)} although a response arrived at +{a}"
            elif len(out[1][0]) != nframes:
                prob = f"{len(out[1][0])} frames returned, {nframes} arrived"
            elif abs((out[1][1] - t0) - a) > 1e-6:
                prob = f"returned at +{out[1][1] - t0:.3f}, response arrived at +{a}"
        else:
            if exc_class(out) != "TimeoutError":
                prob = f"outcome {exc_class(out)} when no response arrived within the budget"
            elif "No response" not in str(out[1]):
                prob = f"timeout message {out[1]!s}"
        if prob is None and not via_refresh and followup:
            sec, t2 = followup.get("second"), followup.get("tx2", [])
            if len(t2) != 1:
                prob = f"the exchange after this one transmitted its request {len(t2)} times (prompt device)"
            elif sec[0] != "ok" or sec[1] < 1:
                prob = f"the exchange after this one did not return the prompt reply: {sec}"
        if prob is None and not via_refresh and idx % 3 == 0:
            # ... and when the device has gone silent for that next exchange, whatever is still queued from this one
            # must not hide that: the full budget is used and the exchange times out
            exec_A(version, r, delays, second_silent=True)
            sec, t2 = followup.get("second"), followup.get("tx2", [])
            # the first exchange may have ended in a disconnect; the follow-up then re-handshakes on V3 first
            if len(t2) != r:
                prob = f"a completely unanswered exchange after this one transmitted {len(t2)} times, budget {r}"
            elif sec != ("exc", "TimeoutError"):
                prob = f"a completely unanswered exchange after this one ended with {sec} instead of a timeout"
        if prob:
            st.violation(f"A v{version} r={r}: " + prob.split(",")[0].split(" [")[0].split(" at +")[0][:60], case,
                         {"transmissions": count, "success": ok, "first_arrival": a}, prob, f"tx={rel} outcome={out!s}"[:300])
        st.state(("A", version, r, len(tx), ok))
        st.transitions += len(tx)
        st.ev(("A", version, r, delays, via_refresh), ("ok" if ok else "timeout") + f"/{count}tx", True,
              sample=None if len(st.samples) or idx % 5 else {**case, "tx_instants": rel, "outcome": exc_class(out), "read_timeout": T})
    st.reruns += det.reruns


# ---------------------------------------------------------------- part B
def faults(version):
    phases = ["data"] if version == 2 else ["handshake", "data"]
    out = []
    for ph in phases:
        out.append(("drop", ph))
        out.append(("garbage", ph))
        out.append(("garbage-marker", ph))
        if version == 3:
            out.append(("garbage-enc", ph))      # well-framed 'encrypted response' whose ciphertext is not block aligned
        out.append(("close", ph))
        out.append(("late", ph))          # every honest answer of this exchange arrives only after the exchange gave up
        if version == 3:
            out.append(("error", ph))
    out.append(("refuse", None))
    out.append(("hang", None))
    out.append(("unreachable", None))     # connect fails with a plain OSError (no route to host)
    out.append(("dns", None))             # ... or with a resolver error
    return out


def garbage(version, marker) -> bytes:
    if marker == "enc":
        body = filler("c08/genc", 45 + 32)
        return rc.v3_header(len(body) - 2, 0, rc.T_ENC_RESP) + body
    if not marker:
        return bytes(b if b not in (0x83, 0x5a) else 0x11 for b in filler("c08/garb", 40))
    if version == 2:
        return b"\x5a\x5a\x01\x11\x48\x00" + filler("c08/g2", 66)
    return b"\x00\x83\x70\x00\x10\x20\x03" + filler("c08/g3", 30)


STARTS = ["cold", "warm", "closed", "expired", "worn-expired"]


def exec_B(version, start, seq, cancel_spec=None, trace_op=None, once=False, energy=False):
    """seq: list of fault descriptors (or ("cancel", k)); a final honest exchange follows.

    cancel_spec: {op_index: instant} cancels exchange op_index at that absolute instant.
    trace_op: record loop instants while this op runs (to derive cancellation intervals).
    """
    w = World()
    token, key = filler("c08/tok", 64), filler("c08/key", 32)
    cur = {"fault": None}
    held = []

    def script(req):
        f = cur["fault"]
        if f is not None and f[1] == req.kind:
            kind = f[0]
            if once:
                cur["fault"] = None         # only the first request of the operation is hit
            if kind == "drop":
                return
            if kind == "late":
                held.extend((req.conn, p) for p in req.responses)
                return
            if kind == "garbage":
                req.send(garbage(version, False))
                return
            if kind == "garbage-marker":
                req.send(garbage(version, True))
                return
            if kind == "garbage-enc":
                req.send(garbage(version, "enc"))
                return
            if kind == "close":
                req.close()
                return
            if kind == "error":
                req.send(rc.v3_build_plain(rc.T_ERROR, 0, b""))
                return
        for p in req.responses:
            req.send(p)

    def policy(host, port, n):
        f = cur["fault"]
        if f is not None and f[0] == "refuse":
            return SimNet.REFUSE
        if f is not None and f[0] == "hang":
            return SimNet.HANG
        if f is not None and f[0] == "unreachable":
            return SimNet.UNREACHABLE
        if f is not None and f[0] == "dns":
            return SimNet.DNS
        return None

    ac_model = RefAC({"power": True, "temp": 22.5, "mode": 4, "fan": 60, "eco": True})
    dev = SimDevice(version=version, token=token, key=key, device_id=5, ac=ac_model, script=script)
    w.net.listen(IP, PORT, dev)
    w.net.connect_policy = policy
    ac = AC(ip=IP, port=PORT, device_id=5)
    if energy:
        ac.enable_energy_usage_requests = True      # a refresh is then two exchanges (state, energy)
    log = []
    instants = {}

    async def exchange(i, fault):
        cur["fault"] = fault if fault and fault[0] != "cancel" else None
        if trace_op == i:
            w.loop.trace_instants = instants.setdefault("t", [w.now()])
        t = asyncio.ensure_future(ac.refresh())
        if cancel_spec and i in cancel_spec:
            w.loop.call_at(cancel_spec[i], t.cancel)
        try:
            await t
            res = "returned"
        except asyncio.CancelledError:
            res = "cancelled"
        except BaseException as e:  # noqa: BLE001
            res = type(e).__name__
        w.loop.trace_instants = None
        cur["fault"] = None
        if held:
            # the slow answers all arrive now (connections closed meanwhile swallow theirs), before the next exchange starts
            for k, (conn, p) in enumerate(held):
                conn.deliver(p, 0.001 * (k + 1))
            del held[:]
            await asyncio.sleep(0.05)
        log.append((res, ac.online))
        return res

    async def drive():
        s = STARTS[start]
        if version == 3 and s != "cold":
            await ac.authenticate(token, key)
        elif version == 3:
            # cold V3 client: user has authenticated, connection then went away before first use
            await ac.authenticate(token, key)
            w.net.conns[-1].peer_close(0.001)
            await asyncio.sleep(0.01)
        if s in ("warm", "closed", "expired"):
            await ac.refresh()
        if s == "closed":
            w.net.conns[-1].peer_close(0.001)
            await asyncio.sleep(0.01)
        if s == "expired":
            w.loop.jump(13 * 3600)
        if s == "worn-expired":
            # the connection has carried more than 2^16 packets when its authentication expires
            await ac.refresh()
            dev.on_enc_request = lambda conn, p, entry: None
            for _ in range(66000):
                ac._lan._protocol.write(b"\xaa\x01\x02")
            dev.on_enc_request = None
            await asyncio.sleep(0.05)
            w.loop.jump(13 * 3600)
        marks = {"faults_from": len(dev.rx)}
        for i, f in enumerate(seq):
            await exchange(i, f)
        marks["final_from"] = len(dev.rx)
        marks["final_conn_from"] = len(w.net.conns)
        await exchange(len(seq), None)
        return marks

    try:
        out = w.run(drive())
        return out, log, dev, ac, w.net, instants.get("t", [])
    finally:
        w.close()


def cancel_points(version, start, seq, op):
    """Interior points of every interval between consecutive loop instants while op `op` runs uncancelled."""
    base = [f if f[0] != "cancel" else None for f in seq]
    # earlier cancels must be applied identically: resolved by the caller passing cancel_spec
    return base


def run_B(st: Stats, version, start, part, nparts, triples=False):
    det = Determinism(first=3, every=101)
    fl = faults(version)
    # the empty sequence: the start state (e.g. connection closed by the peer while idle) followed directly by the final exchange
    seqs = [[]] + [[f] for f in fl] + [[f, g] for f in fl for g in fl]
    if triples:
        seqs = [[f, g, h] for f in fl for g in fl for h in fl]
    idx = 0

    def one(seq, cancel_spec, label):
        nonlocal idx
        idx += 1
        if idx % nparts != part:
            return
        case = {"part": "B", "version": version, "start": STARTS[start], "seq": [list(map(str, f)) if f else None for f in seq],
                "cancel": {str(k): v for k, v in (cancel_spec or {}).items()}}
        out, log, dev, ac, net, _ = exec_B(version, start, seq, cancel_spec)
        if det.due():
            o2, log2, dev2, _, _, _ = exec_B(version, start, seq, cancel_spec)
            det.check((str(out), log, len(dev.rx)), (str(o2), log2, len(dev2.rx)), case)
        prob = None
        if out[0] != "ok":
            prob = f"driver ended with {exc_class(out)}"
        else:
            marks = out[1]
            final = log[-1]
            for i, (res, online) in enumerate(log[:-1]):
                f = seq[i]
                if res not in ("returned", "cancelled"):
                    prob = f"exchange under fault {f} raised {res}"
                elif res == "cancelled" and not (cancel_spec and i in cancel_spec):
                    prob = f"exchange under fault {f} ended cancelled without a cancel"
            if prob is None:
                if final[0] != "returned":
                    prob = f"final exchange raised {final[0]}"
                elif not final[1]:
                    prob = "final exchange with an honest prompt device found it offline"
                else:
                    d = diff_view(client_view_of(dev.ac.state), ac)
                    if d:
                        prob = f"final exchange reported wrong state {d}"
            if prob is None and version == 3:
                # the connection that carried the final data request must have begun with a handshake (cached token)
                fin = [e for e in dev.rx[marks["final_from"]:] if e.get("ptype") == rc.T_ENC_REQ and e["ok"]]
                if not fin:
                    prob = "device accepted no data packet in the final exchange"
                else:
                    cidx = fin[-1]["conn"]
                    first = next(e for e in dev.rx if e["conn"] == cidx)
                    if first.get("ptype") != rc.T_HANDSHAKE_REQ or not first["ok"]:
                        prob = "connection of the final exchange did not begin with a valid handshake"
        if prob:
            st.violation(f"B v{version} {label}: " + prob.split("{")[0][:70], case, "final exchange succeeds unaided", prob,
                         f"log={log}")
        st.state(("B", version, start, tuple(map(str, seq)), tuple(sorted((cancel_spec or {}).items()))))
        st.transitions += len(seq) + 1
        st.ev(("B", version, start, tuple(map(str, seq)), tuple(sorted((cancel_spec or {}).items()))),
              "/".join(r for r, _ in log), True,
              sample=None if label != "drop-data+close-data" else {**case, "log": log})

    for seq in seqs:
        one(seq, None, "+".join(f"{f[0]}-{f[1]}" if f[1] else f[0] for f in seq) or "no-fault")

    # cancellation: single cancel at every interval of an honest exchange, cancel followed by each fault,
    # each fault followed by a cancel, cancel inside a faulty exchange
    def instants_of(seq, op, spec=None):
        _, _, _, _, _, ins = exec_B(version, start, seq, spec, trace_op=op)
        pts = []
        for a, b in zip(ins, ins[1:]):
            if b - a > 1e-9:
                pts.append((a + b) / 2)
        return pts

    if triples:
        st.reruns += det.reruns
        return
    for t in instants_of([None], 0):
        one([("cancel", 0)], {0: t}, "cancel")
        for g in fl:
            one([("cancel", 0), g], {0: t}, f"cancel+{g[0]}")
    for f in fl:
        for t in instants_of([f], 0):
            one([f], {0: t}, f"cancel-during-{f[0]}")
        for t in instants_of([f, None], 1):
            one([f, ("cancel", 0)], {1: t}, f"{f[0]}+cancel")
    st.reruns += det.reruns


def run_B1(st: Stats, version):
    """A refresh made of two exchanges (state + energy query) whose FIRST exchange alone meets the fault: the second exchange,
    answered promptly, must succeed within the same refresh (the device is online, its energy data is read)."""
    for start in range(4 if version == 3 else 3):
        for f in faults(version):
            if f[1] != "data" and f != ("drop", "handshake"):
                # (a handshake request that gets no answer once, then is answered when retransmitted, is knowable as well)
                continue
            case = {"part": "B1", "version": version, "start": STARTS[start], "seq": [list(map(str, f))], "once": True}
            out, log, dev, ac, net, _ = exec_B(version, start, [f], once=True, energy=True)
            prob = None
            if out[0] != "ok":
                prob = f"driver ended with {exc_class(out)}"
            elif log[0][0] != "returned":
                prob = f"refresh whose first exchange met {f[0]} raised {log[0][0]}"
            elif not log[0][1]:
                prob = f"device reported offline although the exchange after the failed one ({f[0]}) was answered promptly"
            elif log[-1] != ("returned", True):
                prob = f"following refresh: {log[-1]}"
            if prob:
                st.violation(f"B1 v{version} {f[0]}: " + prob.split("(")[0][:80], case, "the next exchange succeeds", prob, f"log={log}")
            st.state(("B1", version, start, f))
            st.transitions += 2
            st.ev(("B1", version, start, f), "/".join(r for r, _ in log), True)


def run_AH(st: Stats):
    """V3, the retry contract of the IMPLICIT handshake inside an exchange: the first k handshake requests never reach the
    device (k = 0 .. budget), the next one is answered promptly."""
    budget = LAN.RETRIES
    for how in ("closed", "expired"):
        for k in range(0, budget + 2):
            w = World()
            token, key = filler("c08/tok", 64), filler("c08/key", 32)
            lost = {"n": 0, "armed": False}

            def lossy(conn, ptype, lost=lost, k=k):
                if lost["armed"] and ptype == rc.T_HANDSHAKE_REQ and lost["n"] < k:
                    lost["n"] += 1
                    return True
                return False

            dev = SimDevice(version=3, token=token, key=key, device_id=5)
            dev.lossy = lossy
            w.net.listen(IP, PORT, dev)
            lan = LAN(IP, PORT, 5)

            async def drive():
                await lan.authenticate(token, key)
                await lan.send(CMD)
                if how == "closed":
                    w.net.conns[-1].peer_close(0.001)
                    await asyncio.sleep(0.01)
                else:
                    w.loop.jump(13 * 3600)
                lost["armed"] = True
                n0 = len(dev.rx)
                try:
                    r = ("ok", len(await lan.send(CMD)))
                except BaseException as e:  # noqa: BLE001
                    r = (type(e).__name__, str(e)[:60])
                hs = sum(1 for e in dev.rx[n0:] if e.get("ptype") == rc.T_HANDSHAKE_REQ)
                lost["armed"] = False
                try:
                    r2 = ("ok", len(await lan.send(CMD)))
                except BaseException as e:  # noqa: BLE001
                    r2 = (type(e).__name__, str(e)[:60])
                return r, hs, r2

            try:
                out = w.run(drive())
            finally:
                w.close()
            case = {"part": "AH", "version": 3, "how": how, "lost_handshakes": k, "budget": budget}
            prob = None
            if out[0] != "ok":
                prob = f"driver ended with {exc_class(out)}"
            else:
                r, hs, r2 = out[1]
                if k < budget:
                    if r[0] != "ok":
                        prob = f"{k} lost handshake request(s), budget {budget}: exchange raised {r[0]} after {hs} handshake transmissions"
                    elif hs != k + 1:
                        prob = f"{hs} handshake transmissions, expected {k + 1}"
                else:
                    if r[0] == "ok":
                        prob = "exchange succeeded although no handshake request reached the device"
                    elif r[0] not in ("TimeoutError", "AuthenticationError", "ProtocolError"):
                        prob = f"exchange raised {r[0]}"
                    elif hs != budget:
                        prob = f"{hs} handshake transmissions, budget {budget}"
                if prob is None and r2[0] != "ok":
                    prob = f"following exchange with a prompt device raised {r2[0]}"
            if prob:
                st.violation(f"AH v3 implicit handshake ({how}): " + prob.split(":")[0][:80], case, "retransmitted within the budget, then recovery", prob)
            st.state(("AH", how, k))
            st.transitions += 2
            st.ev(("AH", how, k), str(out[1][0][0]) if out[0] == "ok" else "driver", True)


def run_Bworn(st: Stats):
    for seq in ([], [("drop", "data")], [("close", "handshake")], [("error", "data")]):
        case = {"part": "B", "version": 3, "start": "worn-expired", "seq": [list(map(str, f)) for f in seq], "cancel": {}}
        out, log, dev, ac, net, _ = exec_B(3, 4, seq)
        prob = None
        if out[0] != "ok":
            prob = f"driver ended with {exc_class(out)}"
        elif any(r not in ("returned",) for r, _ in log):
            prob = f"an exchange raised {[r for r, _ in log if r != 'returned'][0]}"
        elif not log[-1][1]:
            prob = "final exchange with an honest prompt device found it offline"
        if prob:
            st.violation("B v3 worn connection (>65536 packets) + expired authentication: " + prob[:70], case, "final exchange succeeds unaided", prob, f"log={log}")
        st.state(("Bworn", tuple(seq)))
        st.transitions += len(seq) + 1
        st.ev(("Bworn", tuple(map(str, seq))), "/".join(r for r, _ in log), True)


def run_shard(shard, tier) -> Stats:
    st = Stats()
    kind, version, a, part, nparts = shard
    if kind == "AH":
        run_AH(st)
    elif kind == "B1":
        run_B1(st, version)
    elif kind == "Bworn":
        run_Bworn(st)
    elif kind == "A":
        run_A(st, version, a, part, nparts)
    elif kind == "AT":
        run_A(st, version, a, part, nparts, alphabet=FRACTIONS_T)
    elif kind == "B3":
        run_B(st, version, a, part, nparts, triples=True)
    elif kind == "Aref":
        run_A(st, version, LAN.RETRIES, 0, 1, via_refresh=True)      # device-level calls use the library's default budget
    else:
        run_B(st, version, a, part, nparts)
    st.traces = st.evaluations
    return st


def replay(case):
    if case["part"] == "A":
        delays = tuple(case["delays"])
        out, tx, _ = exec_A(case["version"], case["retries"], delays, case.get("refresh", False))
        return {"outcome": str(out)[:200], "tx": tx, "model": model_A(case["retries"], delays, read_timeout(case["version"]))}
    seq = [tuple(None if x == "None" else x for x in f) if f else None for f in case["seq"]]
    spec = {int(k): v for k, v in case.get("cancel", {}).items()} or None
    out, log, dev, ac, net, _ = exec_B(case["version"], STARTS.index(case["start"]), seq, spec, once=case.get("once", False),
                                       energy=case.get("once", False))
    return {"outcome": str(out)[:200], "log": log, "connects": net.connect_attempts}
