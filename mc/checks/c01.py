"""C01 - End-to-end fidelity: applied state reaches the device; device state is read back."""
from __future__ import annotations

import asyncio

from .. import alphabet as al
from .. import design as dz
from .. import refcodec as rc
from ..harness import Chooser, Determinism, explore
from ..refdevice import RefAC
from ..report import Stats
from ..simdev import LATENCY
from ..util import Rig, client_view_of, diff_view

PROPERTY = "C01"
LEVEL = "model_checking"
RULE = ("composed-stack exploration: client A sets a state vector and calls apply(); a FRESH client B calls refresh(); both run the "
        "whole real stack against the reference device (independent codec + vendor bit layout). Inputs (E1): every value of every "
        "settable field against 4 base vectors + a strength-2 covering design, display via toggle_display, x {V2,V3} x credential "
        "and device-id alphabets. Environment (E2, deviation-bounded DFS over choice points owned by the simulated device): per "
        "reply, delivery in separate segments / coalesced / cut at every byte offset / byte by byte, and an unsolicited truthful "
        "state report (frame type 05 or 04), a duplicate of the reply or an unsolicited B5 notification before and/or after it; on V3 "
        "optionally an idle period past the 12 h authentication lifetime between two applies; optionally a second writer that changes "
        "the device before A applies its unchanged state again. "
        "Oracle: reference-device state == applied vector; A's and B's public attributes == device state. "
        "Plus one long session per protocol: > 600 commands (two wraps of the 8-bit message id) from one client pair, device and "
        "read-back compared in every round; idle-time notifications with response ids the library ignores; every other read-back is a two-exchange refresh during which the unit is changed by a remote control and reports it. state = (vector, protocol, choice prefix); transition = one choice point answered")
ASSUMPTIONS = ["unsolicited reports are truthful", "segments of one reply arrive 1 microsecond apart and before the read timeout",
               "V2 has no stream framing in the library: split / coalesced V2 replies are a recorded known finding, every other "
               "violation is reported"]

EXTRAS = ["none", "state05", "state04", "dup", "b5notif"]


def bounds(tier):
    return {"vectors": "all single-field sweeps x 4 bases + pairwise design", "protocols": [2, 3],
            "deviation_bound_bases": 2, "deviation_bound_all_vectors": 1,
            "cut_offsets": "every byte offset" if tier == "thorough" else "every byte offset (bound 1), every 6th (bound 2)",
            "credentials": len(al.credentials()), "device_ids": len(al.device_ids())}


def vectors(tier):
    v = dz.single_field_sweeps(dz.BASES if tier == "thorough" else dz.BASES[:1])
    v += dz.pairwise(dz.field_domains(rep=True))
    seen, out = set(), []
    for i, c in enumerate(v):
        c = {**c, "display": bool((i // 3) % 2)}
        k = tuple(sorted(c.items()))
        if k not in seen:
            seen.add(k)
            out.append(c)
    return out


def shards(tier):
    vs = vectors(tier)
    out = []
    n = 24
    for i in range(n):
        out.append(("vectors", i, n))
    for b in range(len(dz.BASES) if tier == "thorough" else 2):
        for version in (2, 3):
            for part in range(6):
                out.append(("deep", b, version, part, 6))
    for c in range(len(al.credentials())):
        out.append(("creds", c, 0))
    for version in (2, 3):
        out.append(("long", version, 0))
    return out


class Env:
    """Device-side environment: all answers come from the chooser."""

    def __init__(self, ch: Chooser, version: int, cut_step: int = 1):
        self.ch = ch
        self.version = version
        self.cut_step = cut_step
        self.modes_used = []

    def script(self, req):
        if req.kind != "data" or not req.responses:
            for p in req.responses:
                req.send(p)
            return
        ch = self.ch
        reply = req.responses[0]
        pre = EXTRAS[ch.pick("pre", len(EXTRAS))]
        post = EXTRAS[ch.pick("post", len(EXTRAS))]
        packets = []
        for what in (pre, None, post):
            if what is None:
                packets.append(reply)
            elif what != "none":
                packets.append(self.extra(req, what, reply))
        stream = b"".join(packets)
        cuts = list(range(self.cut_step, len(stream), self.cut_step))
        m = ch.pick("mode", 3 + len(cuts))
        if m == 0:
            chunks = packets
            mode = "separate"
        elif m == 1:
            chunks = [stream]
            # V2: a segment whose FIRST packet is the reply is decoded (what follows in the segment is dropped), so
            # "reply + trailing unsolicited frames in one segment" is outside the recorded V2 framing finding
            mode = "separate" if len(packets) == 1 else ("coalesced" if pre != "none" or version_is_3(self) else "coalesced-tail")
        elif m == 2:
            chunks = [stream[i:i + 1] for i in range(len(stream))]
            mode = "bytewise"
        else:
            k = cuts[m - 3]
            chunks = [stream[:k], stream[k:]]
            # a cut that falls exactly between two packets is plain separate delivery
            bnds, pos = set(), 0
            for p in packets:
                pos += len(p)
                bnds.add(pos)
            mode = "separate" if k in bnds else "cut"
        self.modes_used.append(mode)
        if "b5notif" in (pre, post) and mode not in ("coalesced", "coalesced-tail"):
            # the notification completes in a different segment than the reply
            self.modes_used.append("notif-ahead")
        for i, c in enumerate(chunks):
            req.conn.deliver(c, LATENCY + i * 1e-6)

    def extra(self, req, what, reply):
        dev = req.dev
        if what == "dup":
            # the same response frame sent once more (on V3: new counter, new ciphertext)
            return dev.wrap(req.conn, dev.last_resp_frames[0])
        if what == "state05":
            return dev.wrap(req.conn, dev.ac.report(0x05, 0x77))
        if what == "state04":
            return dev.wrap(req.conn, dev.ac.report(0x04, 0x78))
        body = bytes([0xB5, 0x03, 0x10, 0x06, 0x01, 0x01, 0x09, 0x00, 0x01, 0x01, 0x0A, 0x00, 0x01, 0x01, 0xDC])
        return dev.wrap(req.conn, rc.frame_build(body, 0x05))


def version_is_3(env) -> bool:
    return env.version == 3


def execute(vec, version, ch: Chooser, cred=3, dev_id=0x0000_A1B2_C3D4_E5F6, cut_step=1):
    env = Env(ch, version, cut_step)
    # the device's display starts equal to the target for half of the vectors, different for the other half
    model = RefAC({"display_on": vec["display"] if vec["fan"] % 2 else not vec["display"]})
    rig = Rig(version, ac=model, script=env.script, cred=cred, device_id=dev_id)
    a, b = rig.client(), rig.client()

    # a first, different state is applied before the one under test: frames left over from that exchange
    # (unsolicited / duplicated reports of the OLD state) are then still queued when the second command is sent
    pre = dz.BASES[1] if any(vec[k] != dz.BASES[1][k] for k in dz.BASES[1]) and vec["temp"] != dz.BASES[1]["temp"] else dz.BASES[2]

    async def drive():
        await rig.connect(a)
        dz.apply_to_client(a, pre)
        await a.apply()
        await asyncio.sleep(0.05)       # operations do not overlap with in-flight bytes of the previous one
        if version == 3 and ch.pick("idle>12h", 2):
            # the session idles past the 12 h authentication lifetime (whatever is still unread stays queued)
            rig.w.loop.jump(13 * 3600)
        dz.apply_to_client(a, vec)
        await a.apply()
        await asyncio.sleep(0.05)
        if a.display_on != vec["display"]:
            await a.toggle_display()
            await asyncio.sleep(0.05)
        snap_a = diff_view(client_view_of(model.state), a)
        await rig.connect(b)
        if ch.pick("two-writers", 2):
            # another client changes the device behind A's back; A then applies its (unchanged) state again
            dz.apply_to_client(b, pre)
            await b.apply()
            await asyncio.sleep(0.05)
            await a.apply()
            await asyncio.sleep(0.05)
            if a.display_on != vec["display"]:
                await a.toggle_display()
                await asyncio.sleep(0.05)
            snap_a = diff_view(client_view_of(model.state), a)
        await b.refresh()
        return snap_a

    try:
        out = rig.run(drive())
        want = {**dz.as_device_state(vec), "display_on": vec["display"]}
        dev_diff = {k: (v, model.state[k]) for k, v in want.items() if model.state[k] != v}
        b_diff = diff_view(client_view_of(model.state), b) if out[0] == "ok" else None
        obs = (out[0], str(out[1])[:120] if out[0] != "ok" else out[1], dev_diff, b_diff, b.online)
        return obs, env.modes_used, [r[1] for r in model.rejected]
    finally:
        rig.close()


def judge(st: Stats, case, version, obs, modes, rejected):
    kind, a_diff, dev_diff, b_diff, online = obs
    prob = None
    if kind != "ok":
        prob = f"operation raised: {a_diff}"
    elif rejected:
        prob = f"device rejected a command ({rejected[0]})"
    elif dev_diff:
        prob = f"device state differs from the applied state: {dev_diff}"
    elif a_diff:
        prob = f"client A after apply differs from the device: {a_diff}"
    elif not online or b_diff:
        prob = f"fresh client B does not report the device state (online={online}): {b_diff}"
    if prob:
        framing = version == 2 and any(m in ("cut", "coalesced", "bytewise") for m in modes)
        head = prob.split(":")[0].split(" (")[0]
        if framing:
            sig = f"v2 byte stream not one packet per segment ({'/'.join(sorted(set(m for m in modes if m in ('cut', 'coalesced', 'bytewise'))))}): {head}"
        elif "notif-ahead" in modes:
            sig = f"v{version} unsolicited notification in its own segment while a request is outstanding: {head}"
        else:
            sig = f"v{version}: {head}"
        st.violation(sig, case, "applied == device == read back", prob)
    return prob


def run_vectors(st: Stats, tier, part, nparts):
    det = Determinism(first=2, every=499)
    vs = vectors(tier)
    for i in range(part, len(vs), nparts):
        vec = vs[i]
        for version in (2, 3):
            # bound 0 for every vector; bound 1 with coarse cuts for every vector in thorough
            step = 16 if tier == "thorough" else 48

            def run(ch, vec=vec, version=version, step=step):
                return execute(vec, version, ch, cut_step=step)

            def on_exec(ch, res, vec=vec, version=version, step=step):
                obs, modes, rej = res
                case = {"vector": vec, "version": version, "choices": ch.choices(), "cut_step": step}
                if det.due():
                    r2 = execute(vec, version, Chooser(ch.choices()), cut_step=step)
                    det.check(obs, r2[0], case)
                prob = judge(st, case, version, obs, modes, rej)
                st.transitions += len(ch.trace)
                st.state((i, version, tuple(ch.choices())))
                st.ev((i, version, tuple(ch.choices())), "faithful" if not prob else "differs", True,
                      sample=None if len(st.samples) else {"vector": vec, "version": version, "choices": ch.choices()})
            explore(run, 1, on_exec)
    st.reruns += det.reruns


def run_deep(st: Stats, tier, base_i, version, part, nparts):
    vec = {**dz.BASES[base_i], "display": base_i % 2 == 0}
    det = Determinism(first=2, every=997)
    counter = {"n": 0}

    for bound, step in ((1, 1), (2, 8 if tier != "thorough" else 3)):
        def run(ch, step=step):
            return execute(vec, version, ch, cut_step=step)

        # shard the tree by the index of the execution
        def on_exec(ch, res, step=step, bound=bound):
            counter["n"] += 1
            obs, modes, rej = res
            case = {"vector": vec, "version": version, "choices": ch.choices(), "cut_step": step}
            prob = judge(st, case, version, obs, modes, rej)
            st.transitions += len(ch.trace)
            st.state((base_i, version, step, tuple(ch.choices())))
            st.ev((base_i, version, step, tuple(ch.choices())), "faithful" if not prob else "differs", True)

        _explore_sharded(run, bound, on_exec, part, nparts)
    st.reruns += det.reruns


def _explore_sharded(run, bound, on_exec, part, nparts):
    """E2 DFS where the first-level alternatives are split across shards."""
    base = Chooser([])
    res = run(base)
    if part == 0:
        on_exec(base, res)
    tr = base.trace
    firsts = []
    for i in range(len(tr)):
        for alt in range(1, tr[i][1]):
            firsts.append([c for _, _, c in tr[:i]] + [alt])
    for j, prefix in enumerate(firsts):
        if j % nparts != part:
            continue
        stack = [prefix]
        while stack:
            p = stack.pop()
            ch = Chooser(p)
            r = run(ch)
            on_exec(ch, r)
            devs = sum(1 for c in p if c)
            if devs + 1 > bound:
                continue
            t = ch.trace
            b = [c for _, _, c in t]
            for i in range(len(t) - 1, len(p) - 1, -1):
                for alt in range(t[i][1] - 1, 0, -1):
                    stack.append(b[:i] + [alt])


def run_creds(st: Stats, tier, cidx):
    for dev_id in al.device_ids():
        if dev_id >= 2 ** 64:
            continue
        for bi, base in enumerate(dz.BASES[:2]):
            vec = {**base, "display": bool(bi)}
            for version in (2, 3):
                for choices in ([], [0, 0, 2], [1, 2, 1]):
                    ch = Chooser(choices)
                    obs, modes, rej = execute(vec, version, ch, cred=cidx, dev_id=dev_id, cut_step=16)
                    case = {"vector": vec, "version": version, "choices": choices, "cred": cidx, "device_id": dev_id, "cut_step": 16}
                    prob = judge(st, case, version, obs, modes, rej)
                    st.transitions += len(ch.trace)
                    st.ev(("cred", cidx, dev_id, bi, version, tuple(choices)), "faithful" if not prob else "differs", True)


def run_long(st: Stats, tier, version):
    """One process-long session: > 2 wraps of the 8-bit message id on one client pair, every round checked."""
    model = RefAC({})
    remote = {"arm": False, "n": 0}

    def script(req):
        # "remote control": while client B's refresh is between its state query and its energy query somebody changes the
        # setpoint on the unit, which reports its new state (truthfully) together with the energy answer
        is_energy = req.kind == "data" and req.frame is not None and len(req.frame) > 13 and req.frame[10] == 0x41 and req.frame[13] == 0x44
        if remote["arm"] and is_energy and req.responses:
            remote["arm"] = False
            remote["n"] += 1
            model.state["temp"] = 18.5 if model.state["temp"] != 18.5 else 26.0
            model.state["power"] = not model.state["power"]
            batch = list(req.responses) + [req.dev.wrap(req.conn, model.report(0x05, 0x55))]
            if remote["n"] % 2 == 0:
                # ... and is switched forth and back once more: three reports, the last one byte-identical to the first
                model.state["power"] = not model.state["power"]
                batch.append(req.dev.wrap(req.conn, model.report(0x05, 0x55)))
                model.state["power"] = not model.state["power"]
                batch.append(req.dev.wrap(req.conn, model.report(0x05, 0x55)))
            req.conn.deliver_many(batch, LATENCY)
            return
        for p in req.responses:
            req.send(p)

    rig = Rig(version, ac=model, script=script)
    a, b = rig.client(), rig.client()
    b.enable_energy_usage_requests = True
    vs = vectors("quick")
    target = 600 if tier != "thorough" else 1400
    problems = []

    async def drive():
        await rig.connect(a)
        await rig.connect(b)
        i = 0
        while len(model.frames) < target and not problems:
            vec = vs[(i * 37) % len(vs)]
            dz.apply_to_client(a, vec)
            await a.apply()
            await asyncio.sleep(0.05)
            want = dz.as_device_state(vec)
            dd = {k: (v, model.state[k]) for k, v in want.items() if model.state[k] != v}
            if dd:
                problems.append((i, len(model.frames), f"device state differs from the applied state: {dd}"))
            if i % 5 == 1:
                # while the connection idles the unit volunteers a notification of a kind the library has no use for
                # (response ids A0 / A1 / 0D): it is queued and met by the next exchange
                rid = (0xA0, 0xA1, 0x0D)[(i // 5) % 3]
                for c in rig.w.net.conns:
                    if not c.closing:
                        c.deliver(rig.dev.wrap(c, rc.frame_build(bytes([rid]) + bytes(range(1, 19)) + bytes([0x33]), 0x05)), 0.001)
                await asyncio.sleep(0.01)
            if i % 3 == 0:
                remote["arm"] = i % 2 == 0
                await b.refresh()
                remote["arm"] = False
                bd = diff_view(client_view_of(model.state), b)
                if bd or not b.online:
                    problems.append((i, len(model.frames), f"fresh client B does not report the device state (online={b.online}): {bd}"))
            st.ev(("long", version, i), "faithful" if not problems else "differs", True)
            st.transitions += 1
            i += 1
        return i

    try:
        out = rig.run(drive(), limit=10 ** 7, budget=3600)
        if out[0] != "ok":
            problems.append((-1, len(model.frames), f"operation raised: {str(out[1])[:120]}"))
        for i, n, prob in problems:
            st.violation(f"v{version} long session: {prob.split(':')[0].split(' (')[0]}", {"long": True, "version": version, "round": i, "commands": n},
                         "applied == device == read back in every round of a long session", prob)
    finally:
        rig.close()


def run_shard(shard, tier) -> Stats:
    st = Stats()
    if shard[0] == "long":
        run_long(st, tier, shard[1])
    elif shard[0] == "vectors":
        run_vectors(st, tier, shard[1], shard[2])
    elif shard[0] == "deep":
        run_deep(st, tier, shard[1], shard[2], shard[3], shard[4])
    else:
        run_creds(st, tier, shard[1])
    st.traces = st.evaluations
    return st


def replay(case):
    if case.get("long"):
        st = Stats()
        run_long(st, "quick", case["version"])
        return {"violations": sorted(st.viol_counts)}
    ch = Chooser(case["choices"])
    obs, modes, rej = execute(case["vector"], case["version"], ch, cred=case.get("cred", 3),
                              dev_id=case.get("device_id", 0x0000_A1B2_C3D4_E5F6), cut_step=case.get("cut_step", 1))
    return {"obs": str(obs), "modes": modes, "rejected": rej, "trace": ch.trace}
