"""C16 - Property-protocol settings: sent once, correctly encoded, read back equal."""
from __future__ import annotations

import asyncio
import collections
from itertools import product

from msmart.device import AirConditioner as AC
from msmart.lan import LAN

from .. import refcodec as rc
from .. import refdevice as rd
from ..harness import Determinism
from ..refdevice import RefAC, cap_record
from ..report import Stats, h8
from ..util import Rig

PROPERTY = "C16"
LEVEL = "model_checking"
RULE = ("explicit-state search over operation histories (E3) on the real AirConditioner against the reference device, for every "
        "capability profile (breeze-control | legacy away+breezeless | none) x (rate 2-level | 5-level | none) x iECO x swing "
        "angles. Events: setters of the advertised settings (sub-alphabet of values each), beep, apply, apply with a silent device, "
        "refresh, start_self_clean. (a) full history tree to depth D1, (b) BFS with de-duplication on (device store, pending ids, "
        "structural fingerprint of the client) to depth D2, (c) every enum value of every setting in 'set v; apply; refresh'. "
        "Reference model: pending-id set + device property store. Oracle in every state: the 0xB0 writes of an apply carry exactly "
        "the pending ids + buzzer, each once, under the advertised id, with the vendor value encoding of the public attribute values "
        "read just before apply; an apply with nothing pending sends no 0xB0; after apply+refresh the attributes equal the values "
        "set; at most one breeze attribute is true.")
ASSUMPTIONS = ["legacy breeze flags are mutually exclusive on the device (one louvre)", "operations do not overlap",
               "a silent device loses the request (its store does not change); the write still counts as transmitted"]

BREEZE = ["control", "legacy", "none"]
RATE = ["2", "5", "none"]


def profiles(tier):
    allp = list(product(BREEZE, RATE, (True, False), (True, False)))
    if tier == "thorough":
        return allp
    # pairwise-covering subset of 9
    pick = []
    for i, b in enumerate(BREEZE):
        for j, r in enumerate(RATE):
            pick.append((b, r, (i + j) % 2 == 0, (i + 2 * j) % 3 != 1))
    return pick


def depths(tier):
    return {"tree": 4 if tier == "thorough" else 3, "bfs": 6 if tier == "thorough" else 4}   # bfs uses the reduced alphabet


def bounds(tier):
    d = depths(tier)
    return {"profiles": len(profiles(tier)), "tree_depth": d["tree"] if tier != "thorough" else "4 for 9 of the 36 profiles, 3 for the others",
            "bfs_depth": d["bfs"], "bfs_alphabet": "one non-default value per setter"}


def shards(tier):
    out = []
    ps = profiles(tier)
    for i in range(len(ps)):
        for first in range(len(events_for(ps[i]))):
            out.append(("tree", i, first))
        out.append(("tree", i, -1))
    for i in (range(len(ps)) if tier == "thorough" else (0, 4, 8)):
        for first in range(len(small_events(ps[i]))):
            out.append(("bfs", i, first))
    for pi in range(3):
        for pre_i in range(8):
            out.append(("values", pi, pre_i))
    return out


def cap_pages(profile):
    b, r, ieco, angles = profile
    recs = [cap_record(0x0039, 1), cap_record(0x0214, 1)]
    if b == "control":
        recs.append(cap_record(0x0043, 1))
    elif b == "legacy":
        recs += [cap_record(0x0042, 1), cap_record(0x0018, 1)]
    if r == "2":
        recs.append(cap_record(0x0048, 1))
    elif r == "5":
        recs.append(cap_record(0x0048, 2))
    if ieco:
        recs.append(cap_record(0x00E3, 1))
    if angles:
        recs += [cap_record(0x0009, 1), cap_record(0x000A, 1)]
    return [recs]


def events_for(profile, full_values=False):
    b, r, ieco, angles = profile
    ev = []
    if angles:
        vals = list(AC.SwingAngle) if full_values else [AC.SwingAngle.OFF, AC.SwingAngle.POS_3, AC.SwingAngle.POS_5]
        ev += [("set", "horizontal_swing_angle", int(v)) for v in vals]
        ev += [("set", "vertical_swing_angle", int(v)) for v in (vals if full_values else vals[1:])]
    if r == "2":
        ev += [("set", "rate_select", int(v)) for v in (AC.RateSelect.OFF, AC.RateSelect.GEAR_50, AC.RateSelect.GEAR_75)]
    elif r == "5":
        vals = ([AC.RateSelect.OFF, AC.RateSelect.LEVEL_1, AC.RateSelect.LEVEL_2, AC.RateSelect.LEVEL_3, AC.RateSelect.LEVEL_4,
                 AC.RateSelect.LEVEL_5] if full_values else [AC.RateSelect.OFF, AC.RateSelect.LEVEL_1, AC.RateSelect.LEVEL_5])
        ev += [("set", "rate_select", int(v)) for v in vals]
    if b != "none":
        ev += [("set", "breeze_away", True), ("set", "breeze_away", False), ("set", "breezeless", True), ("set", "breezeless", False)]
    if b == "control":
        ev += [("set", "breeze_mild", True), ("set", "breeze_mild", False)]
    if ieco:
        ev += [("set", "ieco", True), ("set", "ieco", False)]
    ev += [("beep", True), ("beep", False), ("apply",), ("apply-silent",), ("refresh",), ("clean",)]
    # the unit itself starts / finishes a cleaning cycle (remote control, or the cycle simply ends)
    ev += [("unit-clean", True), ("unit-clean", False)]
    if angles or r != "none" or b != "none" or ieco:
        ev.append(("refresh-push",))
        ev.append(("refresh-extra",))
    return ev


PID = {"horizontal_swing_angle": rd.P_SWING_LR, "vertical_swing_angle": rd.P_SWING_UD, "rate_select": rd.P_RATE, "ieco": rd.P_IECO}


def pending_id(profile, attr):
    if attr in PID:
        return PID[attr]
    if profile[0] == "control":
        return rd.P_BREEZE_CONTROL
    return {"breeze_away": rd.P_BREEZE_AWAY, "breezeless": rd.P_BREEZELESS}[attr]


def vendor_value(pid, ac: AC) -> bytes:
    """Vendor encoding of the client's public attribute values for property `pid`."""
    if pid == rd.P_SWING_LR:
        return bytes([int(ac.horizontal_swing_angle)])
    if pid == rd.P_SWING_UD:
        return bytes([int(ac.vertical_swing_angle)])
    if pid == rd.P_RATE:
        return bytes([int(ac.rate_select)])
    if pid == rd.P_IECO:
        return bytes([0, 1, 1 if ac.ieco else 0]) + bytes(10)
    if pid == rd.P_BREEZE_AWAY:
        return bytes([2 if ac.breeze_away else 1])
    if pid == rd.P_BREEZELESS:
        return bytes([1 if ac.breezeless else 0])
    if pid == rd.P_BREEZE_CONTROL:
        return bytes([2 if ac.breeze_away else 3 if ac.breeze_mild else 4 if ac.breezeless else 1])
    if pid == rd.P_BUZZER:
        return bytes([1 if ac.beep else 0])
    raise KeyError(pid)


def public(ac: AC):
    return (int(ac.horizontal_swing_angle), int(ac.vertical_swing_angle), int(ac.rate_select), bool(ac.breeze_away),
            bool(ac.breeze_mild), bool(ac.breezeless), bool(ac.ieco), bool(ac.beep), bool(ac.self_clean_active))


def fp(obj, depth=0, seen=None):
    if seen is None:
        seen = set()
    if obj is None or isinstance(obj, (bool, str, float, bytes)):
        return obj
    if isinstance(obj, int):
        return int(obj)
    if isinstance(obj, (set, frozenset)):
        return ("set", tuple(sorted(repr(fp(x, depth + 1, seen)) for x in obj)))
    if isinstance(obj, (list, tuple)):
        return tuple(fp(x, depth + 1, seen) for x in obj)
    if isinstance(obj, LAN) or depth > 3 or id(obj) in seen:
        return type(obj).__name__
    if hasattr(obj, "__dict__"):
        seen.add(id(obj))
        return (type(obj).__name__, tuple(sorted(repr(fp(v, depth + 1, seen)) for v in vars(obj).values())))
    return type(obj).__name__


class Run:
    """Replay a history; evaluate the oracle after every event."""

    def __init__(self, profile, hist):
        self.profile = profile
        self.viol = []
        self.silent = False
        self.push = False
        model = RefAC(cap_pages=cap_pages(profile))

        self.energy_silent = False

        def script(req):
            if (self.energy_silent and req.frame is not None and len(req.frame) > 13 and req.frame[10] == 0x41
                    and req.frame[11] == 0x21 and req.frame[13] in (0x44, 0x45)):
                return      # this unit simply does not answer energy / humidity queries
            if self.push and req.frame is not None and len(req.frame) > 10 and req.frame[10] == 0xB1 and model.prop_gets and model.prop_gets[-1]:
                # an unsolicited, truthful status push for ONE of the queried properties arrives back to back with the reply
                # (same instant, so both are consumed by this exchange)
                pid = sorted(model.prop_gets[-1])[0]
                push = req.dev.wrap(req.conn, model._props_frame(0xB1, [pid], 0x05, 0x5A))
                req.conn.deliver_many(list(req.responses) + [push], 0.01)
                return
            for p in req.responses:
                req.send(p)
        self.rig = Rig(2, ac=model, script=script)
        self.rig.dev.lossy = None
        self.model = model
        dev = self.rig.dev
        orig = dev._v2_packet

        def v2_packet(conn, data):
            if self.silent:
                # request lost before the device: log only
                dev.rx.append({"t": conn.net.loop.time(), "conn": conn.index, "raw": data, "kind": "v2", "ok": True, "lost": True,
                               "frame": rc.v2_parse(data).frame})
                return
            orig(conn, data)
        dev._v2_packet = v2_packet
        self.ac = self.rig.client()
        self.observer = self.rig.client()       # a second client object of the same device: sees what the device stores
        self.pending = set()
        self.out = self.rig.run(self._drive(hist))

    def b0_writes(self, frm):
        """Distinct 0xB0 command frames seen by (or lost on the way to) the device since index frm."""
        out, last = [], None
        for e in self.rig.dev.rx[frm:]:
            fr = e.get("frame")
            if fr is None or fr == last:
                continue
            last = fr
            f = rc.frame_parse(fr)
            if f.body[0] == 0xB0:
                b = f.body[:-1]
                items, cur = [], 2
                for _ in range(b[1]):
                    pid = b[cur] | (b[cur + 1] << 8)
                    size = b[cur + 2]
                    items.append((pid, bytes(b[cur + 3:cur + 3 + size])))
                    cur += 3 + size
                out.append((f.frame_type, items, cur == len(b)))
        return out

    def bad(self, sig, detail):
        self.viol.append((sig, detail))

    async def _drive(self, hist):
        ac = self.ac
        await ac.get_capabilities()
        await ac.refresh()
        await self.observer.get_capabilities()
        self.applied_since_set = {}
        for i, ev in enumerate(hist):
            kind = ev[0]
            mark = len(self.rig.dev.rx)
            if kind == "set":
                _, attr, val = ev
                cur = getattr(AC, attr)
                enumt = {"horizontal_swing_angle": AC.SwingAngle, "vertical_swing_angle": AC.SwingAngle, "rate_select": AC.RateSelect}.get(attr)
                setattr(ac, attr, enumt(val) if enumt else val)
                self.pending.add(pending_id(self.profile, attr))
            elif kind == "beep":
                ac.beep = ev[1]
            elif kind in ("apply", "apply-silent"):
                expect = {pid: vendor_value(pid, ac) for pid in self.pending}
                if expect:
                    expect[rd.P_BUZZER] = vendor_value(rd.P_BUZZER, ac)
                want_public = public(ac)
                self.silent = kind == "apply-silent"
                await ac.apply()
                self.silent = False
                writes = self.b0_writes(mark)
                if not self.pending:
                    if writes:
                        self.bad("apply with nothing pending sent a property write", str(writes))
                else:
                    if len(writes) != 1:
                        self.bad(f"apply with pending properties sent {len(writes)} property writes", str(writes))
                    else:
                        ft, items, wellformed = writes[0]
                        ids = [p for p, _ in items]
                        if not wellformed or ft != 0x02:
                            self.bad("property write malformed", str(writes[0]))
                        elif sorted(ids) != sorted(expect):
                            missing = sorted(set(expect) - set(ids))
                            extra = sorted(set(ids) - set(expect))
                            dup = len(ids) != len(set(ids))
                            self.bad("property write carries wrong ids" + (" (duplicate)" if dup else ""),
                                     f"missing={[hex(x) for x in missing]} extra={[hex(x) for x in extra]} pending={[hex(x) for x in sorted(self.pending)]}")
                        else:
                            for pid, val in items:
                                if val != expect[pid]:
                                    self.bad(f"property {pid:#06x} value encoding", f"sent {val.hex()} expected {expect[pid].hex()}")
                self.pending.clear()
                if not self.silent and kind == "apply":
                    await self.observer.refresh()
                    self._check_readback("observer refresh", who=self.observer)
            elif kind in ("refresh", "refresh-push", "refresh-extra"):
                self.push = kind == "refresh-push"
                if kind == "refresh-extra":
                    # the unit volunteers properties nobody asked for (indoor humidity, fresh air, anion) inside its reply
                    self.extra_n = getattr(self, "extra_n", 0) + 1
                    xid, xval = [(0x0015, b"\x2d"), (0x004B, b"\x01\x28\x14"), (0x021E, b"\x01")][self.extra_n % 3]
                    self.model.extra_in_replies = (self.extra_n % 2, xid, xval)
                await ac.refresh()
                self.model.extra_in_replies = None
                self.push = False
                self._check_readback(kind)

            elif kind == "state":
                # the settings carried by the state protocol are whatever the user likes (swinging louvres, any mode)
                ac.power_state = True
                ac.swing_mode = AC.SwingMode(ev[1])
                ac.operational_mode = AC.OperationalMode(ev[2])
            elif kind == "energy-silent":
                ac.enable_energy_usage_requests = True
                self.observer.enable_energy_usage_requests = True
                self.energy_silent = True
            elif kind == "unit-clean":
                self.model.props[rd.P_SELF_CLEAN] = b"\x01" if ev[1] else b"\x00"
            elif kind == "clean":
                await ac.start_self_clean()
                writes = self.b0_writes(mark)
                ok = len(writes) == 1 and sorted(p for p, _ in writes[0][1]) == sorted([rd.P_SELF_CLEAN, rd.P_BUZZER]) \
                    and dict(writes[0][1])[rd.P_SELF_CLEAN] == b"\x01" and dict(writes[0][1])[rd.P_BUZZER] == vendor_value(rd.P_BUZZER, ac)
                if not ok:
                    self.bad("start_self_clean write", str(writes))
            n = sum((bool(ac.breeze_away), bool(ac.breeze_mild), bool(ac.breezeless)))
            if n > 1:
                self.bad("more than one breeze mode reported active", str(public(ac)))

    def _check_readback(self, when, who=None):
        """After a refresh the attributes equal what the device stores (reference decode of the store)."""
        ac, store = (who or self.ac), self.model.props
        b, r, ieco, angles = self.profile
        exp = {}
        if angles:
            exp["horizontal_swing_angle"] = store.get(rd.P_SWING_LR, b"\x00")[0]
            exp["vertical_swing_angle"] = store.get(rd.P_SWING_UD, b"\x00")[0]
        if r != "none":
            rv = store.get(rd.P_RATE, b"\x00")[0]
            if rv in [int(x) for x in AC.RateSelect]:
                exp["rate_select"] = rv
        if ieco:
            exp["ieco"] = bool(store.get(rd.P_IECO, bytes(13))[2])
        if b == "control":
            v = store.get(rd.P_BREEZE_CONTROL, b"\x00")[0]
            exp["breeze_away"], exp["breeze_mild"], exp["breezeless"] = v == 2, v == 3, v == 4
        elif b == "legacy":
            exp["breeze_away"] = store.get(rd.P_BREEZE_AWAY, b"\x00")[0] == 2
            exp["breezeless"] = bool(store.get(rd.P_BREEZELESS, b"\x00")[0])
            exp["breeze_mild"] = False
        exp["self_clean_active"] = bool(store.get(rd.P_SELF_CLEAN, b"\x00")[0])
        for k, v in exp.items():
            got = getattr(ac, k)
            got = int(got) if not isinstance(got, bool) else got
            if got != v:
                self.bad(f"read-back of {k} differs from the device" + (" (second client object)" if who is not None else ""),
                         f"device {v} exposed {got} store={ {hex(a): c.hex() for a, c in store.items()} }")

    def fingerprint(self):
        store = tuple(sorted((k, v) for k, v in self.model.props.items()))
        return (self.profile, store, tuple(sorted(self.pending)), fp(self.ac), public(self.ac))

    def close(self):
        self.rig.close()


def check(st: Stats, profile, hist):
    run = Run(profile, hist)
    try:
        if run.out[0] != "ok":
            run.bad(f"operation raised {type(run.out[1]).__name__}", str(run.out[1])[:200])
        for sig, detail in run.viol:
            st.violation(sig if not sig.startswith("read-back") else sig, {"profile": list(profile), "hist": [list(e) for e in hist]},
                         "oracle holds", detail)
        return run.fingerprint(), bool(run.viol)
    finally:
        run.close()


def run_tree(st, profile, depth, first):
    evs = events_for(profile)
    det = Determinism(first=2, every=997)

    def rec(hist):
        f, bad = check(st, profile, hist)
        if det.due():
            f2, _ = check(Stats(), profile, hist)
            det.check(f, f2, hist)
        st.state(f)
        st.ev(("tree", profile, tuple(hist)), "holds" if not bad else "violated", len(hist) > 0,
              sample=None if len(st.samples) or len(hist) != 3 else {"profile": list(profile), "hist": [list(e) for e in hist]})
        if len(hist) >= depth or bad:
            return
        for ev in evs:
            # skip immediately repeated identical setter (no new behaviour, keeps the tree within budget)
            if hist and hist[-1] == ev and ev[0] in ("set", "beep"):
                continue
            st.transitions += 1
            rec(hist + [ev])
    if first < 0:
        f, bad = check(st, profile, [])
        st.state(f)
        st.ev(("tree", profile, ()), "holds" if not bad else "violated", False)
    else:
        st.transitions += 1
        rec([evs[first]])
    st.reruns += det.reruns


def small_events(profile):
    """Reduced alphabet for the deep de-duplicated search: one non-default value per setter."""
    keep = []
    seen_attr = set()
    for ev in events_for(profile):
        if ev[0] == "set":
            if ev[1] in ("breeze_away", "breezeless", "breeze_mild", "ieco"):
                keep.append(ev)
            elif (ev[1] not in seen_attr and ev[2] not in (0, 100)):
                seen_attr.add(ev[1])
                keep.append(ev)
        elif ev != ("beep", False):
            keep.append(ev)
    return keep


def run_bfs(st, profile, depth, first):
    evs = small_events(profile)
    seen = set()
    frontier = collections.deque([[evs[first]]])
    maxd = 0
    while frontier:
        hist = frontier.popleft()
        f, bad = check(st, profile, hist)
        st.ev(("bfs", profile, tuple(hist)), "holds" if not bad else "violated", len(hist) > 0)
        k = h8(f)
        if k in seen or bad:
            continue
        seen.add(k)
        st.state(f)
        maxd = max(maxd, len(hist))
        if len(hist) >= depth:
            continue
        for ev in evs:
            st.transitions += 1
            frontier.append(hist + [ev])
    st.extra["bfs_states"] += len(seen)
    st.notes.setdefault("bfs_max_depth", maxd)


def run_values(st, tier, pi, pre_i):
    for profile in [("control", "5", True, True), ("legacy", "2", True, True), ("control", "2", False, True)][pi:pi + 1]:
        for ev in events_for(profile, full_values=True):
            if ev[0] != "set":
                continue
            for pre in ([], [("apply",)], [("set", "breezeless", True), ("apply",)], [("state", 0xF, 2)], [("state", 0xC, 4), ("apply",)],
                        [("state", 0x3, 1)], [("energy-silent",)], [("energy-silent",), ("refresh",)])[pre_i:pre_i + 1]:
                hist = pre + [ev, ("apply",), ("refresh",), ("apply",), ("refresh",)]
                f, bad = check(st, profile, hist)
                # read back equal: after set v; apply; refresh the attribute still has the value set
                run = Run(profile, hist)
                try:
                    got = getattr(run.ac, ev[1])
                    got = int(got) if not isinstance(got, bool) else got
                    if got != ev[2]:
                        st.violation(f"set {ev[1]}; apply; refresh reads back a different value", {"profile": list(profile), "hist": [list(e) for e in hist]},
                                     ev[2], got)
                finally:
                    run.close()
                st.ev(("values", profile, tuple(hist)), "holds" if not bad else "violated", True)


def run_shard(shard, tier) -> Stats:
    st = Stats()
    d = depths(tier)
    if shard[0] == "tree":
        depth = d["tree"]
        if tier == "thorough" and shard[1] % 6:
            depth -= 1          # depth 4 for every 6th profile (6 of 36), depth 3 for the others
        run_tree(st, profiles(tier)[shard[1]], depth, shard[2])
    elif shard[0] == "bfs":
        run_bfs(st, profiles(tier)[shard[1]], d["bfs"], shard[2])
    else:
        run_values(st, tier, shard[1], shard[2])
    st.traces = st.evaluations
    return st


def replay(case):
    hist = [tuple(e) for e in case["hist"]]
    run = Run(tuple(case["profile"]), hist)
    try:
        return {"violations": run.viol, "public": public(run.ac), "store": {hex(k): v.hex() for k, v in run.model.props.items()}}
    finally:
        run.close()
