"""C11 - State responses decode to exactly the reported state."""
from __future__ import annotations

from .. import refcodec as rc
from ..harness import Determinism
from ..refdevice import RefAC, cap_record, decode_setpoint
from ..report import Stats
from ..util import Rig

PROPERTY = "C11"
LEVEL = "exploration"
RULE = ("bounded-exhaustive enumeration (E1) of raw 0xC0 payloads reported by the simulated device to a fresh client's refresh(): "
        "256 temperature bytes x 10 tenths digits x {indoor,outdoor} x {C,F}; 32 alternate x 32 primary setpoint codes; all 256 "
        "values of each of bytes 1,2,3,7,8,9,10,13,14,19,21; payload lengths 16..40; trailing check CRC-8 and additive. Oracle: "
        "vendor layout (reference/*.lua) + the temperature rules of the property. non-trivial = every case")
ASSUMPTIONS = ["for a client that knows the unit advertises preset fan speeds only, non-preset reported speeds carry no expectation",
               "for byte values outside the layout's defined codes (mode 0/7, undefined swing nibbles, unlisted fan enum) only "
               "'no exception' and the defined sibling fields are asserted", "turbo is the OR of the two vendor turbo bits"]

BASE = bytes.fromhex("c00145660000003c0010045c6800000000000000000000018426")[:25]
# c0 01 45 66 00 00 00 3c 00 10 04 5c 68 00 00 00 ...   (power on, cool 21, fan 102 ...)


def base_payload(n=25):
    b = bytearray(BASE[:n] if n <= len(BASE) else BASE + bytes(n - len(BASE)))
    return b


def bounds(tier):
    return {"temperature": "256 x 10 x 2 sensors x 2 units", "setpoint_codes": "32 x 32", "flag_bytes": [1, 2, 3, 7, 8, 9, 10, 13, 14, 19, 21],
            "lengths": "16..40", "check_styles": ["crc8", "additive"]}


def shards(tier):
    out = [("temp", sensor, unit, lo) for sensor in (0, 1) for unit in (0, 1) for lo in range(0, 256, 64)]
    out += [("setpoint", 0, 0, 0)]
    out += [("byte", i, 0, 0) for i in (1, 2, 3, 7, 8, 9, 10, 13, 14, 19, 21)]
    out += [("length", 0, 0, 0)]
    out += [("history", i, 0, 0) for i in (1, 2, 3, 7, 8, 9, 10, 13, 14, 19, 21)]
    if tier == "thorough":
        out += [("setpoint-full", lo, 0, 0) for lo in range(0, 256, 16)]
        out += [("flagpairs", i, j, 0) for i, j in ((8, 9), (8, 10), (9, 10), (1, 2), (3, 7), (13, 14), (19, 21), (2, 10))]
    return out


CAPS = {
    # a unit that advertises none of the optional features / one that advertises them all (custom fan speed included)
    "min": [[cap_record(0x0212, 0), cap_record(0x0214, 3), cap_record(0x0215, 0), cap_record(0x0210, 0), cap_record(0x0224, 0),
             cap_record(0x0213, 0), cap_record(0x0217, 0), cap_record(0x021A, 0), cap_record(0x0219, 0), cap_record(0x0216, 0)]],
    "max": [[cap_record(0x0212, 1), cap_record(0x0214, 1), cap_record(0x0215, 1), cap_record(0x0210, 1), cap_record(0x0224, 1),
             cap_record(0x0213, 1), cap_record(0x0217, 1), cap_record(0x021A, 1), cap_record(0x0219, 1), cap_record(0x0216, 1),
             cap_record(0x0225, 0x22, 0x3C, 0x22, 0x3C, 0x22, 0x3C, 1), cap_record(0x021F, 3), cap_record(0x0222, 0), cap_record(0x0043, 1)]],
}


def execute(payload: bytes, check: str = "crc", caps: str = None):
    ref = RefAC(check=check, **({"cap_pages": CAPS[caps]} if caps else {}))
    ref.report_body = bytes(payload)
    rig = Rig(2, ac=ref)
    ac = rig.client()

    async def drive():
        if caps:
            # a client that has queried the unit's capabilities first: what a state response REPORTS does not depend on them
            await ac.get_capabilities()
        await ac.refresh()

    try:
        out = rig.run(drive())
        return out, ac
    finally:
        rig.close()


def execute_two_in_one(older: bytes, newer: bytes, check="crc"):
    """One refresh whose exchange carries an older (unsolicited) state report followed by the actual reply."""
    ref = RefAC(check=check)
    ref.report_body = bytes(newer)

    def script(req):
        old = req.dev.wrap(req.conn, rc.frame_build(bytes(older), 0x05, check=check))
        req.conn.deliver_many([old] + list(req.responses), 0.01)

    rig = Rig(2, ac=ref, script=script)
    ac = rig.client()
    try:
        out = rig.run(ac.refresh())
        return out, ac
    finally:
        rig.close()


def execute_later_exchange(older: bytes, newer: bytes, check="crc"):
    """A refresh made of two exchanges (state query, energy query): the state query is answered with `older`; while the
    energy query is answered the unit also reports `newer` (it changed meanwhile).  The last report received wins."""
    ref = RefAC(check=check)
    ref.report_body = bytes(older)

    def script(req):
        is_state_query = req.frame is not None and len(req.frame) > 12 and req.frame[10] == 0x41 and req.frame[11] == 0x81
        if is_state_query or not req.responses:
            for p in req.responses:
                req.send(p)
            return
        new = req.dev.wrap(req.conn, rc.frame_build(bytes(newer), 0x05, check=check))
        req.conn.deliver_many(list(req.responses) + [new], 0.01)

    rig = Rig(2, ac=ref, script=script)
    ac = rig.client()
    ac.enable_energy_usage_requests = True
    try:
        out = rig.run(ac.refresh())
        return out, ac, len(ref.frames)
    finally:
        rig.close()


def execute_history(payloads, check="crc"):
    """One client: refresh(P0); local (unapplied) edits of every settable attribute; refresh(P1); ... - the last report wins."""
    from msmart.device import AirConditioner as AC
    ref = RefAC(check=check)
    rig = Rig(2, ac=ref)
    ac = rig.client()

    async def drive():
        for i, p in enumerate(payloads):
            ref.report_body = bytes(p)
            await ac.refresh()
            if i + 1 < len(payloads):
                # the user edits the local copy but never applies it
                ac.power_state = not ac.power_state
                ac.target_temperature = 29.0 if ac.target_temperature != 29.0 else 18.0
                ac.operational_mode = AC.OperationalMode.DRY if ac.operational_mode != AC.OperationalMode.DRY else AC.OperationalMode.HEAT
                ac.fan_speed = 33
                ac.swing_mode = AC.SwingMode.BOTH if ac.swing_mode != AC.SwingMode.BOTH else AC.SwingMode.OFF
                ac.eco, ac.turbo, ac.sleep = not ac.eco, not ac.turbo, not ac.sleep
                ac.fahrenheit, ac.follow_me, ac.purifier = not ac.fahrenheit, not ac.follow_me, not ac.purifier
                ac.freeze_protection = not ac.freeze_protection
                ac.target_humidity = 77
                ac.aux_mode = AC.AuxHeatMode.AUX_ONLY if ac.aux_mode != AC.AuxHeatMode.AUX_ONLY else AC.AuxHeatMode.OFF

    try:
        out = rig.run(drive())
        return out, ac
    finally:
        rig.close()


def expected(p: bytes) -> dict:
    """Vendor-layout decode of the payload; value None = 'unknown', key missing = no expectation."""
    e = {}
    e["power_state"] = bool(p[1] & 1)
    mode = p[2] >> 5
    if 1 <= mode <= 6:
        e["operational_mode"] = mode
    e["target_temperature"] = decode_setpoint(p[2], p[13])
    e["fan_speed"] = p[3] & 0x7F
    sw = p[7] & 0xF
    if sw in (0, 3, 0xC, 0xF):
        e["swing_mode"] = sw
    e["turbo"] = bool(p[8] & 0x20) or bool(p[10] & 0x02)
    e["follow_me"] = bool(p[8] & 0x80)
    e["eco"] = bool(p[9] & 0x10)
    e["purifier"] = bool(p[9] & 0x20)
    e["aux_mode"] = 2 if p[8] & 0x40 else (1 if p[9] & 0x08 else 0)
    e["sleep"] = bool(p[10] & 1)
    e["fahrenheit"] = bool(p[10] & 4)
    e["filter_alert"] = bool(p[13] & 0x20)
    e["display_on"] = ((p[14] >> 4) & 7) != 7
    e["target_humidity"] = (p[19] & 0x7F) if len(p) >= 20 else None
    e["freeze_protection"] = bool(p[21] & 0x80) if len(p) >= 22 else None
    return e


def temp_ok(value, raw, tenths, fahrenheit):
    if raw == 0xFF:
        return value is None, "unknown exactly for 0xFF"
    if value is None:
        return False, "value unknown although byte != 0xFF"
    coarse = (raw - 50) / 2
    if abs(value - coarse) > 1:
        return False, f"|{value} - {coarse}| > 1"
    if not fahrenheit and tenths != 0 and tenths <= 9:
        if round(abs(value) % 1, 1) != tenths / 10:
            return False, f"tenths digit {tenths} not reflected in {value}"
    return True, ""


def judge(st: Stats, case, p, out, ac, temps=None):
    prob = None
    if out[0] != "ok":
        prob = f"refresh raised {type(out[1]).__name__}"
    elif not ac.online:
        prob = "valid response not accepted (device offline)"
    else:
        bad = []
        for k, v in expected(p).items():
            if k == "fan_speed" and case.get("caps") == "min" and v not in (20, 40, 60, 80, 102):
                # a unit that advertises preset speeds only cannot (consistently) report a speed in between: no expectation
                continue
            got = getattr(ac, k)
            if isinstance(got, int) and not isinstance(got, bool):
                got = int(got)
            if got != v:
                bad.append(f"{k}: reported {v} exposed {got}")
        fahrenheit = bool(p[10] & 4)
        for name, raw, tenths in (("indoor_temperature", p[11], p[15] & 0xF), ("outdoor_temperature", p[12], p[15] >> 4)):
            ok, why = temp_ok(getattr(ac, name), raw, tenths, fahrenheit)
            if not ok:
                bad.append(f"{name}: {why}")
        if bad:
            prob = "; ".join(bad)
    if prob:
        field = prob.split(":")[0]
        st.violation(f"{case['kind']} {field}"[:80], {**case, "payload": bytes(p)}, "vendor decode", prob)
    return prob


def run_shard(shard, tier) -> Stats:
    kind, a, b, c = shard
    st = Stats()
    det = Determinism(first=3, every=499)

    def one(case, p, check="crc"):
        out, ac = execute(p, check)
        if det.due():
            o2, ac2 = execute(p, check)
            det.check((str(out), ac.to_dict()), (str(o2), ac2.to_dict()), case)
        prob = judge(st, case, p, out, ac)
        st.ev((kind, bytes(p), check), "match" if not prob else "differ", True,
              sample=None if len(st.samples) >= 1 else {**case, "payload": bytes(p).hex()})

    if kind == "temp":
        sensor, unit = a, b
        for raw in range(c, c + 64):
            for tenths in range(10):
                p = base_payload()
                p[10] = (p[10] & ~4) | (4 if unit else 0)
                if sensor == 0:
                    p[11] = raw
                    p[15] = (p[15] & 0xF0) | tenths
                else:
                    p[12] = raw
                    p[15] = (p[15] & 0x0F) | (tenths << 4)
                one({"kind": "temp", "sensor": sensor, "unit": unit, "raw": raw, "tenths": tenths}, p,
                    "crc" if (raw + tenths) % 2 == 0 else "sum")
    elif kind == "setpoint":
        for alt in range(32):
            for prim in range(32):
                p = base_payload()
                p[2] = (p[2] & 0xE0) | prim
                p[13] = (p[13] & 0xE0) | alt
                one({"kind": "setpoint", "alt": alt, "primary": prim}, p)
    elif kind == "setpoint-full":
        for b2 in range(a, a + 16):
            for b13 in range(256):
                p = base_payload()
                p[2] = b2
                p[13] = b13
                one({"kind": "setpoint-full", "byte2": b2, "byte13": b13}, p)
    elif kind == "flagpairs":
        grid = sorted(set([0, 1, 2, 4, 8, 16, 32, 64, 128, 255, 0x7F, 0xF0, 0x0F, 0x55, 0xAA, 0x70, 0x71, 0x33, 0xCC, 0x81, 0x42, 0x24, 0x18, 0xE0,
                           0x07, 0xFE, 0xEF, 0x11, 0x22, 0x44, 0x88, 0x99]))
        for va in grid:
            for vb in grid:
                p = base_payload()
                p[a] = va
                p[b] = vb
                one({"kind": f"flagpair{a}/{b}", "values": [va, vb]}, p)
    elif kind == "byte":
        for v in range(256):
            for variant in (0, 1):
                p = base_payload()
                if variant:
                    for i in (1, 7, 8, 9, 10, 13, 21):
                        p[i] ^= 0xFF if i != 13 else 0x20
                    p[2] = 0x91
                p[a] = v
                one({"kind": f"byte{a}", "value": v, "variant": variant}, p, "crc" if v % 2 else "sum")
                if variant == 0:
                    for caps in ("min", "max"):
                        case = {"kind": f"byte{a} caps={caps}", "value": v, "variant": variant, "caps": caps}
                        out, ac = execute(p, "crc", caps)
                        prob = judge(st, case, p, out, ac)
                        st.ev((kind, a, v, caps), "match" if not prob else "differ", True)
    elif kind == "history":
        # the same report twice with local edits in between, and two different reports in a row
        for v in range(0, 256, 5):
            p = base_payload()
            p[a] = v
            q = base_payload()
            q[a] = (v * 7 + 13) & 0xFF
            out, ac = execute_two_in_one(q, p, "crc" if v % 2 else "sum")
            prob = judge(st, {"kind": "history two-reports-in-one-exchange", "byte": a, "value": v, "sequence": "two-in-one"}, p, out, ac)
            st.ev(("history", a, v, "two-in-one"), "match" if not prob else "differ", True)
            out, ac, nreq = execute_later_exchange(q, p, "crc" if v % 2 else "sum")
            if nreq < 2:
                raise RuntimeError("the refresh under test must consist of at least two exchanges")
            prob = judge(st, {"kind": "history report-in-a-later-exchange", "byte": a, "value": v, "sequence": "later-exchange"}, p, out, ac)
            st.ev(("history", a, v, "later-exchange"), "match" if not prob else "differ", True)
            for seq, label in (([p, p], "same-report-twice"), ([q, p], "other-report-first"), ([p, q, p], "back-to-first")):
                case = {"kind": "history", "byte": a, "value": v, "sequence": label}
                out, ac = execute_history(seq, "crc" if v % 2 else "sum")
                prob = judge(st, {**case, "kind": f"history {label}"}, seq[-1], out, ac)
                st.ev(("history", a, v, label), "match" if not prob else "differ", True)
    else:
        for n in range(16, 41):
            for variant in (0, 1, 2):
                p = base_payload(n)
                if variant == 1:
                    for i in range(16, n):
                        p[i] = 0xFF
                if variant == 2:
                    for i in range(16, n):
                        p[i] = 0x80 | (i * 7 & 0x7F)
                for check in ("crc", "sum"):
                    one({"kind": "length", "n": n, "variant": variant, "check": check}, p, check)
    st.reruns += det.reruns
    return st


def replay(case):
    st = Stats()
    p = case["payload"]
    if str(case.get("kind", "")).startswith("history"):
        q = base_payload()
        q[case["byte"]] = (case["value"] * 7 + 13) & 0xFF
        if case["sequence"] == "two-in-one":
            out, ac = execute_two_in_one(q, p, "crc" if case["value"] % 2 else "sum")
            return {"problem": judge(st, case, p, out, ac), "state": str(ac.to_dict())[:400]}
        seq = {"same-report-twice": [p, p], "other-report-first": [q, p], "back-to-first": [p, q, p]}[case["sequence"]]
        out, ac = execute_history(seq, "crc" if case["value"] % 2 else "sum")
        return {"problem": judge(st, case, p, out, ac), "state": str(ac.to_dict())[:400]}
    out, ac = execute(p, case.get("check", "crc"))
    prob = judge(st, case, p, out, ac)
    return {"problem": prob, "state": str(ac.to_dict())[:400]}
