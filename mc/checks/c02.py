"""C02 - V2 packet codec interoperates: every frame and device id round-trips."""
from __future__ import annotations

from datetime import datetime, timezone

from msmart.lan import LAN, _Packet

from .. import alphabet as al
from .. import refcodec as rc
from ..harness import Determinism, World, exc_class, filler
from ..report import Stats
from ..simdev import ScriptPeer

PROPERTY = "C02"
LEVEL = "exploration"
RULE = ("bounded-exhaustive enumeration (E1): frame length 0..255 x content pattern x device id x wall-clock instant; "
        "each case is one LAN.send on a V2 connection whose wire bytes are parsed by the independent reference codec "
        "(marker, little-endian length == byte count, id bytes, timestamp, MD5 over packet[:-16]+key, AES-ECB/PKCS7) and whose "
        "reply is built by the reference codec for a different frame; plus a direct _Packet.encode/decode sweep over lengths 0..600, incl. "
        "frames that begin or end with the protocol's own literals (5A5A, 8370, AA, ERROR, pad bytes) and the requirement that a decoded frame "
        "stays what it was when the next packet is decoded; plus, for every frame length, exchanges whose first 1 / 2 transmissions the "
        "peer ignores: every retransmission written to the wire must decode under the reference codec to the same frame and id. "
        "non-trivial = frame length > 0")
ASSUMPTIONS = ["AES block primitive and hashlib.md5 are correct", "one reply packet per TCP segment (V2 has no reassembly layer)"]
IP, PORT = "10.0.0.9", 6444


def ids() -> list[int]:
    out = [0, 1, 2**64 - 1]
    for k in range(1, 8):
        out += [2**(8 * k) - 1, 2**(8 * k), 2**(8 * k) + 1]
    out += [0x0102030405060708, 0x0807060504030201, 0x00FF00FF00FF00FF, 0xFF00FF00FF00FF00, 0x5A5A5A5A5A5A5A5A,
            0x0000837000005A5A, 0x0102030404030201, 0x8000000000000000, 0x7FFFFFFFFFFFFFFF, 0x0000123456789ABC,
            15393162840672, 147334558165565, 123456, 0x0100000000000001, 0x00000000FFFFFFFF, 0xFFFFFFFF00000000,
            0x00000000DEADBEEF, 0x1122334455667788, 0xFEDCBA9876543210, 0x0000FFFFFFFFFFFF]
    return out


INSTANTS = [
    datetime(1999, 12, 31, 23, 59, 59, 999999, tzinfo=timezone.utc),
    datetime(2000, 1, 1, 0, 0, 0, 0, tzinfo=timezone.utc),
    datetime(2024, 2, 29, 12, 34, 56, 500000, tzinfo=timezone.utc),
    datetime(2025, 10, 9, 8, 7, 6, 50000, tzinfo=timezone.utc),
    datetime(2099, 12, 31, 23, 59, 59, 990000, tzinfo=timezone.utc),
    datetime(2100, 1, 1, 0, 0, 0, 9999, tzinfo=timezone.utc),
    datetime(2038, 1, 19, 3, 14, 8, 10000, tzinfo=timezone.utc),
    datetime(2024, 3, 5, 10, 20, 30, 250000, tzinfo=timezone.utc),
    # the request goes out 4 ms after the connect starts: these two land in the last / first hundredth of a second
    datetime(2031, 7, 4, 5, 6, 7, 993000, tzinfo=timezone.utc),
    datetime(2031, 7, 4, 5, 6, 59, 996500, tzinfo=timezone.utc),
]


def bounds(tier):
    return {"frame_lengths": "0..255 (all)", "patterns": 5, "device_ids": len(ids()), "instants": len(INSTANTS),
            "product": "lengths x ids x %d patterns x %d instants; lengths x patterns x instants" % (
                (5, 2) if tier == "thorough" else (1, 1))}


def shards(tier):
    n = len(ids())
    out = [("ids", i, i + 4) for i in range(0, n, 4)]
    out += [("instants", i, i + 1) for i in range(len(INSTANTS))]
    out += [("direct", 0, 0)]
    out += [("retx", d, 0) for d in (1, 2)]
    return out


def expected_ts(epoch: datetime) -> bytes:
    return rc.v2_timestamp(epoch.year, epoch.month, epoch.day, epoch.hour, epoch.minute, epoch.second,
                           epoch.microsecond // 10000)


def execute(n: int, pat: int, dev_id: int, inst: int, drop: int = 0):
    """One LAN.send; returns observation tuple.  drop = number of transmissions the peer ignores before it answers (the
    retransmissions the library then writes are packets like any other: an independent decoder must accept them too)."""
    epoch = INSTANTS[inst]
    w = World(epoch=epoch)
    frame = al.payload("c02/f", n, pat)
    m = (n * 7 + 3) % 256
    reply_frame = al.payload("c02/r", m, (pat + 1) % 5)
    seen = []
    tx_times = []

    def on_data(conn, data, i):
        seen.append(data)
        tx_times.append(conn.net.loop.time())
        if len(seen) <= drop:
            return
        reply = rc.v2_build(reply_frame, dev_id, timestamp=bytes([1, 2, 3, 4, 5, 6, 7, 8]), magic=b"\x20\x80",
                            message_id=b"\x11\x22\x33\x44", tail=bytes(range(12)))
        conn.deliver(reply, 0.01)

    w.net.listen(IP, PORT, ScriptPeer(on_data))
    lan = LAN(IP, PORT, dev_id)
    try:
        out = w.run(lan.send(frame))
        from datetime import timedelta
        return frame, reply_frame, seen, out, epoch + timedelta(seconds=tx_times[0] if tx_times else 0)
    finally:
        w.close()


def judge(st: Stats, case, frame, reply_frame, seen, out, epoch, dev_id):
    prob = None
    drop = case.get("drop", 0)
    if len(seen) != 1 + drop:
        prob = f"{len(seen)} transmissions"
    else:
        # retransmissions: only what the statement fixes (decodable, same frame, same id); their time stamp may be the first
        # one or a fresh one
        for k, tx in enumerate(seen[1:]):
            try:
                p = rc.v2_parse(tx)
                if p.frame != frame or p.device_id != dev_id:
                    prob = f"retransmission {k + 1}: frame or id differs after reference decode"
            except rc.RefError as e:
                prob = f"retransmission {k + 1}: " + str(e)
            if prob:
                break
    if prob is None:
        try:
            p = rc.v2_parse(seen[0])
            if p.frame != frame:
                prob = "frame differs after reference decode"
            elif p.device_id != dev_id:
                prob = f"device id {p.device_id:#x} != {dev_id:#x}"
            elif p.timestamp != expected_ts(epoch):
                prob = f"timestamp {p.timestamp.hex()} != {expected_ts(epoch).hex()}"
        except rc.RefError as e:
            prob = "request: " + str(e)
    if prob is None:
        if out[0] != "ok":
            prob = f"send raised {exc_class(out)}"
        elif out[1] != [reply_frame]:
            prob = "send returned different frames"
    if prob:
        sig = prob.split(" 0x")[0].split(" (")[0]
        if "timestamp" in prob:
            sig = "timestamp"
        if "device id" in prob:
            sig = "device id"
        st.violation(f"wire {sig}"[:80], case, "reference codec round-trip", prob,
                     f"wire={seen[0].hex() if seen else None}")
    return prob


def run_shard(shard, tier) -> Stats:
    kind, a, b = shard
    st = Stats()
    det = Determinism(first=5, every=997)
    idl = ids()
    if kind == "ids":
        pats = range(5) if tier == "thorough" else None
        insts = (0, 4) if tier == "thorough" else None
        for ii in range(a, min(b, len(idl))):
            for n in range(256):
                for pat in (pats if pats is not None else [(n + ii) % 5]):
                    for inst in (insts if insts is not None else [(n + ii) % len(INSTANTS)]):
                        case = {"kind": "wire", "len": n, "pattern": pat, "id": idl[ii], "instant": inst}
                        obs = execute(n, pat, idl[ii], inst)
                        if det.due():
                            o2 = execute(n, pat, idl[ii], inst)
                            det.check((obs[2], str(obs[3])), (o2[2], str(o2[3])), case)
                        prob = judge(st, case, *obs, idl[ii])
                        st.ev(("w", n, pat, idl[ii], inst), "ok" if not prob else "bad", n > 0,
                              sample=None if (n, ii) != (33, a) else {**case, "wire": obs[2][0].hex() if obs[2] else None})
    elif kind == "retx":
        for n in range(256):
            pat, dev_id, inst = n % 5, idl[n % len(idl)], n % len(INSTANTS)
            case = {"kind": "wire", "len": n, "pattern": pat, "id": dev_id, "instant": inst, "drop": a}
            obs = execute(n, pat, dev_id, inst, drop=a)
            prob = judge(st, case, *obs, dev_id)
            st.ev(("retx", n, a), "ok" if not prob else "bad", n > 0)
    elif kind == "instants":
        for n in range(256):
            for pat in range(5):
                dev_id = idl[(n + pat) % len(idl)]
                case = {"kind": "wire", "len": n, "pattern": pat, "id": dev_id, "instant": a}
                obs = execute(n, pat, dev_id, a)
                prob = judge(st, case, *obs, dev_id)
                st.ev(("w", n, pat, dev_id, a), "ok" if not prob else "bad", n > 0)
    else:
        # direct seam (pinned by the repository's tests), also for lengths the device path does not carry
        # the direct seam runs under the virtual clock too: the sub-second part cycles through values on both sides of every
        # hundredth-of-a-second boundary that matters for the 2-digit centisecond field; now and then minutes or a day pass between two packets
        wclock = World(epoch=datetime(2029, 12, 31, 23, 59, 50, 0, tzinfo=timezone.utc))
        US = [0, 4999, 5000, 9999, 10000, 494000, 500000, 985000, 989999, 990000, 994000, 994999, 995001, 996000, 999000, 999900]
        tick = [0]

        def set_clock():
            tick[0] += 1
            want = US[tick[0] % len(US)]
            cur = int(round((wclock.loop.time() % 1.0) * 1e6))
            wclock.loop.jump(((want - cur) % 1000000) / 1e6 + (3 if tick[0] % 7 == 0 else 0) + (400 if tick[0] % 97 == 0 else 0) + (90000 if tick[0] % 1013 == 0 else 0))
        held = None      # (object returned by the previous decode, the frame it must still equal)
        LITS = [b"\x5a\x5a", b"\x83\x70", b"\xaa", b"ERROR", b"\x5a\x5a\x01\x11", b"\x10" * 16]
        for n in range(0, 601):
            for pat in range(5 + 2 * len(LITS)):
                if pat < 5:
                    frame = al.payload("c02/d", n, pat)
                else:
                    # frames that begin / end with the protocol's own literals (a frame is opaque content to the packet layer)
                    lit = LITS[(pat - 5) // 2]
                    if n < len(lit) or (n > 64 and n % 16 not in (0, 1, 15)):
                        continue
                    body = al.payload("c02/l", n - len(lit), 3)
                    frame = lit + body if pat % 2 else body + lit
                dev_id = idl[(n + pat) % len(idl)]
                case = {"kind": "direct", "len": n, "pattern": pat, "id": dev_id, "frame": frame}
                prob = None
                set_clock()
                try:
                    from ..harness import VDateTime
                    now = VDateTime.now(timezone.utc)
                    p = rc.v2_parse(_Packet.encode(dev_id, frame))
                    if p.frame != frame or p.device_id != dev_id:
                        prob = "encode: reference decodes different frame/id"
                    elif p.timestamp != expected_ts(now):
                        prob = f"encode: timestamp {p.timestamp.hex()} at {now.isoformat()}"
                except rc.RefError as e:
                    prob = "encode: " + str(e)
                except Exception as e:  # noqa: BLE001
                    prob = f"encode: raised {type(e).__name__}"
                try:
                    got = _Packet.decode(rc.v2_build(frame, dev_id, magic=b"\x20\x80", tail=bytes(range(12))))
                    if got != frame:
                        prob = prob or "decode: different frame"
                    if held is not None and bytes(held[0]) != held[1]:
                        prob = prob or "decode: the frame returned by the previous decode changed when this packet was decoded"
                    held = (got, frame)
                except Exception as e:  # noqa: BLE001
                    prob = prob or f"decode: {type(e).__name__}"
                # the length field delimits the packet: bytes that follow it in the same segment (e.g. a second packet)
                # do not belong to it
                if prob is None and n % 3 == 0:
                    ref_pkt = rc.v2_build(frame, dev_id, magic=b"\x20\x80", tail=bytes(range(12)))
                    for tail in (b"\x00", filler("c02/tail", 16), filler("c02/tail2", 33), rc.v2_build(b"\xaa\x01", 5)):
                        try:
                            got = _Packet.decode(ref_pkt + tail)
                            if got != frame:
                                prob = "decode: different frame when further bytes follow the packet"
                        except Exception as e:  # noqa: BLE001
                            prob = f"decode: {type(e).__name__} when further bytes follow the packet"
                if prob:
                    st.violation(f"direct {prob.split(':')[0]} residue={n % 16}" + (" (trailing bytes)" if "follow" in prob else ""), case, "round trip", prob)
                st.ev(("d", n, pat), "ok" if not prob else "bad", n > 0)
        wclock.close()
    st.reruns += det.reruns
    return st


def replay(case):
    if case["kind"] == "direct":
        return run_shard(("direct", 0, 0), "quick").viol_counts
    st = Stats()
    obs = execute(case["len"], case["pattern"], case["id"], case["instant"], drop=case.get("drop", 0))
    prob = judge(st, case, *obs, case["id"])
    return {"problem": prob, "wire": [s.hex() for s in obs[2]], "outcome": str(obs[3])}
