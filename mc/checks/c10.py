"""C10 - Control command encodes exactly the requested state (vendor bit layout)."""
from __future__ import annotations

from itertools import product

from .. import design as dz
from ..harness import Determinism
from ..refdevice import decode_control
from ..report import Stats
from ..util import Rig

PROPERTY = "C10"
LEVEL = "exploration"
RULE = ("bounded-exhaustive enumeration (E1) through AirConditioner.apply() on the simulated wire: all 62 half-degree setpoints x "
        "6 modes x {C,F}; all 128 fan bytes; all 128 humidity values; all combinations of flags sharing a byte; every value of "
        "every field against 4 base vectors; a strength-2 covering design over all fields. The 0x40 body received by the "
        "reference device is decoded with the vendor layout (reference/*.lua) and must equal the requested vector; a body->state "
        "map over the run must be a function (injectivity). non-trivial = every case (distinct requested vectors)")
ASSUMPTIONS = ["vendor layout as transcribed in mc/refdevice.py; DESIGN 3 lists the ambiguities and the decisions",
               "follow-me (byte 8 bit 7) is not in the vendor file; the documented bit is used"]


def bounds(tier):
    return {"setpoints": 62, "modes": 6, "units": 2, "fan_bytes": 128, "humidity": 128, "flag_bytes": "all combinations",
            "pairwise_rows": "strength-2 covering design over 15 fields (fan/humidity on representative values)"}


def gen_cases(tier="quick"):
    cases = []
    for t, m, f in product(dz.SETPOINTS, dz.MODES, (False, True)):
        cases.append({**dz.BASE, "temp": t, "mode": m, "fahrenheit": f})
    for fan in dz.FAN_ALL:
        cases.append({**dz.BASE, "fan": fan})
        cases.append({**dz.BASES[1], "fan": fan})
    for h in dz.HUM_ALL:
        cases.append({**dz.BASE, "humidity": h, "mode": 6})
    for p, b in product((False, True), repeat=2):
        cases.append({**dz.BASE, "power": p, "beep": b})
    for fm, tb in product((False, True), repeat=2):
        cases.append({**dz.BASE, "follow_me": fm, "turbo": tb})
    for eco, pur, aux in product((False, True), (False, True), dz.AUX):
        cases.append({**dz.BASE, "eco": eco, "purifier": pur, "aux": aux})
    for sl, tb, fh in product((False, True), repeat=3):
        cases.append({**dz.BASE, "sleep": sl, "turbo": tb, "fahrenheit": fh})
    for fz, aux in product((False, True), dz.AUX):
        cases.append({**dz.BASE, "freeze": fz, "aux": aux})
    for sw in dz.SWINGS:
        for base in dz.BASES:
            cases.append({**base, "swing": sw})
    cases += dz.single_field_sweeps()
    cases += dz.pairwise(dz.field_domains(rep=True))
    if tier == "thorough":
        cases += dz.pairwise(dz.field_domains(rep=False), seed=77)
        cases += dz.single_field_sweeps([dict(r) for r in dz.pairwise(dz.field_domains(rep=True), seed=5)[:12]])
    # de-duplicate, keep order
    seen, out = set(), []
    for c in cases:
        k = tuple(sorted(c.items()))
        if k not in seen:
            seen.add(k)
            out.append(c)
    return out


def shards(tier):
    cases = gen_cases(tier)
    n = 16
    return [("cases", cases[i::n]) for i in range(n)]


def requested_tuple(s):
    return (s["power"], s["beep"], s["mode"], s["temp"], s["fan"], s["swing"], s["turbo"], s["follow_me"], s["eco"],
            s["purifier"], s["aux"] == 1, s["aux"] == 2, s["sleep"], s["fahrenheit"], s["humidity"], s["freeze"])


def decoded_tuple(c):
    # the vendor layout has two independent bits: PTC (byte 9 bit 3) and independent PTC (byte 22 bit 3)
    return (c["power"], c["beep"], c["mode"], c["temp"], c["fan"], c["swing"], c["turbo"], c["follow_me"], c["eco"],
            c["purifier"], c["aux_heat"], c["indep_aux"], c["sleep"], c["fahrenheit"], c["humidity"], c["freeze"])


NAMES = ("power", "beep", "mode", "temp", "fan", "swing", "turbo", "follow_me", "eco", "purifier", "aux_heat(PTC bit)",
         "independent_aux(bit)", "sleep", "fahrenheit", "humidity", "freeze")


def execute(s):
    rig = Rig(2)
    ac = rig.client()
    dz.apply_to_client(ac, s)
    try:
        out = rig.run(ac.apply())
        ctl = rig.dev.ac.controls[-1] if rig.dev.ac.controls else None
        body = rig.dev.ac.frames[-1].body[:-1] if rig.dev.ac.frames else None
        rej = rig.dev.ac.rejected[-1][1] if rig.dev.ac.rejected else None
        return out, ctl, body, rej
    finally:
        rig.close()


def judge(st: Stats, s, out, ctl, body, rej, table):
    prob = None
    if out[0] != "ok":
        prob = f"apply raised {type(out[1]).__name__}"
    elif ctl is None:
        prob = f"device received no acceptable control command ({rej})"
    else:
        want, got = requested_tuple(s), decoded_tuple(ctl)
        bad = [n for n, w, g in zip(NAMES, want, got) if w != g]
        if ctl["turbo_b8"] != ctl["turbo_b10"]:
            bad.append("turbo(bytes 8/10 disagree)")
        if ctl["force_aux"]:
            bad.append("force_aux set")
        if body[1] & 0x02 == 0 or body[7] & 0x30 != 0x30:
            st.extra["constant_bits_differ_from_vendor(observation)"] += 1
        if bad:
            prob = "fields differ: " + ",".join(bad)
        else:
            prev = table.get(body)
            if prev is not None and prev != want:
                prob = "two different requested states produced the same body"
            table[body] = want
    if prob:
        st.violation("control " + prob[:90], s, {"requested": list(map(str, requested_tuple(s)))},
                     {"decoded": list(map(str, decoded_tuple(ctl))) if ctl else None, "body": body.hex() if body else None})
    return prob


def run_shard(shard, tier) -> Stats:
    _, cases = shard
    st = Stats()
    det = Determinism(first=3, every=499)
    table = {}
    for s in cases:
        res = execute(s)
        if det.due():
            r2 = execute(s)
            det.check((str(res[0]), res[2]), (str(r2[0]), r2[2]), s)
        prob = judge(st, s, *res, table)
        st.ev(tuple(sorted(s.items())), "match" if not prob else "differ", True,
              sample=None if len(st.samples) >= 2 else {"requested": s, "body": res[2].hex() if res[2] else None})
    st.extra["distinct_bodies"] = len(table)
    st.reruns += det.reruns
    return st


def replay(case):
    st = Stats()
    res = execute(case)
    prob = judge(st, case, *res, {})
    return {"problem": prob, "body": res[2].hex() if res[2] else None}
