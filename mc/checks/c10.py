"""C10 - Control command encodes exactly the requested state (vendor bit layout)."""
from __future__ import annotations

from itertools import product

from .. import design as dz
from ..harness import Determinism
from ..refdevice import decode_control
from ..report import Stats
from ..util import Rig

PROPERTY = "C10"
LEVEL = "exploration"
RULE = ("bounded-exhaustive enumeration (E1) through AirConditioner.apply() on the simulated wire: all 62 half-degree setpoints x "
        "6 modes x {C,F}; all 128 fan bytes; all 128 humidity values; all combinations of flags sharing a byte; every value of "
        "every field against 4 base vectors; a strength-2 covering design over all fields. The 0x40 body received by the "
        "reference device is decoded with the vendor layout (reference/*.lua) and must equal the requested vector; a body->state "
        "map over the run must be a function (injectivity). non-trivial = every case (distinct requested vectors)")
ASSUMPTIONS = ["vendor layout as transcribed in mc/refdevice.py; DESIGN 3 lists the ambiguities and the decisions",
               "follow-me (byte 8 bit 7) is not in the vendor file; the documented bit is used"]


def bounds(tier):
    return {"setpoints": 62, "modes": 6, "units": 2, "fan_bytes": 128, "humidity": 128, "flag_bytes": "all combinations",
            "pairwise_rows": "strength-2 covering design over 15 fields (fan/humidity on representative values)"}


def gen_cases(tier="quick"):
    cases = []
    for t, m, f in product(dz.SETPOINTS, dz.MODES, (False, True)):
        cases.append({**dz.BASE, "temp": t, "mode": m, "fahrenheit": f})
    for fan in dz.FAN_ALL:
        cases.append({**dz.BASE, "fan": fan})
        cases.append({**dz.BASES[1], "fan": fan})
    for h in dz.HUM_ALL:
        cases.append({**dz.BASE, "humidity": h, "mode": 6})
    for p, b in product((False, True), repeat=2):
        cases.append({**dz.BASE, "power": p, "beep": b})
    for fm, tb in product((False, True), repeat=2):
        cases.append({**dz.BASE, "follow_me": fm, "turbo": tb})
    for eco, pur, aux in product((False, True), (False, True), dz.AUX):
        cases.append({**dz.BASE, "eco": eco, "purifier": pur, "aux": aux})
    for sl, tb, fh in product((False, True), repeat=3):
        cases.append({**dz.BASE, "sleep": sl, "turbo": tb, "fahrenheit": fh})
    for fz, aux in product((False, True), dz.AUX):
        cases.append({**dz.BASE, "freeze": fz, "aux": aux})
    for sw in dz.SWINGS:
        for base in dz.BASES:
            cases.append({**base, "swing": sw})
    cases += dz.single_field_sweeps()
    cases += dz.pairwise(dz.field_domains(rep=True))
    if tier == "thorough":
        cases += dz.pairwise(dz.field_domains(rep=False), seed=77)
        cases += dz.single_field_sweeps([dict(r) for r in dz.pairwise(dz.field_domains(rep=True), seed=5)[:12]])
    # de-duplicate, keep order
    seen, out = set(), []
    for c in cases:
        k = tuple(sorted(c.items()))
        if k not in seen:
            seen.add(k)
            out.append(c)
    return out


def shards(tier):
    cases = gen_cases(tier)
    n = 16
    return [("cases", cases[i::n]) for i in range(n)]


def requested_tuple(s):
    s = {k: v for k, v in s.items() if k != "variant"}
    return (s["power"], s["beep"], s["mode"], s["temp"], s["fan"], s["swing"], s["turbo"], s["follow_me"], s["eco"],
            s["purifier"], s["aux"] == 1, s["aux"] == 2, s["sleep"], s["fahrenheit"], s["humidity"], s["freeze"])


def decoded_tuple(c):
    # the vendor layout has two independent bits: PTC (byte 9 bit 3) and independent PTC (byte 22 bit 3)
    return (c["power"], c["beep"], c["mode"], c["temp"], c["fan"], c["swing"], c["turbo"], c["follow_me"], c["eco"],
            c["purifier"], c["aux_heat"], c["indep_aux"], c["sleep"], c["fahrenheit"], c["humidity"], c["freeze"])


VARIANTS = ["", "pending property + state report with every answer", "enums as plain ints",
            "client queried the capabilities of a unit without optional features", "client queried the capabilities of a full-featured unit",
            "flags set through the deprecated *_mode attribute names"]
NAMES = ("power", "beep", "mode", "temp", "fan", "swing", "turbo", "follow_me", "eco", "purifier", "aux_heat(PTC bit)",
         "independent_aux(bit)", "sleep", "fahrenheit", "humidity", "freeze")


def execute(s, variant=0):
    """variant 1: a property change is pending too and the unit adds a truthful state report to every answer;
    variant 2: enumerated settings are given as plain integers equal to the members."""
    from msmart.device import AirConditioner as AC

    def script(req):
        if variant == 1 and req.frame is not None and len(req.frame) > 10 and req.frame[10] in (0xB0, 0xB1):
            # the unit answers a property command with the acknowledgement AND a (truthful) state report, back to back
            req.conn.deliver_many(list(req.responses) + [req.dev.wrap(req.conn, req.dev.ac.report(0x05, 0x66))], 0.01)
            return
        for p in req.responses:
            req.send(p)

    from ..refdevice import RefAC
    from .c11 import CAPS
    caps = {3: "min", 4: "max"}.get(variant)
    rig = Rig(2, ac=RefAC({"power": False, "mode": 3, "temp": 19.0, "fan": 77, "eco": True, "humidity": 61, "swing": 0x3},
                          **({"cap_pages": CAPS[caps]} if caps else {})), script=script)
    ac = rig.client()
    if caps:
        # the client has queried the unit's capabilities: what the user then requests is still what is sent
        out0 = rig.run(ac.get_capabilities())
        if out0[0] != "ok":
            rig.close()
            return out0, None, None, None
    dz.apply_to_client(ac, s, aliases=variant == 5)
    if variant == 1:
        ac.horizontal_swing_angle = AC.SwingAngle.POS_3
        ac.ieco = True
    if variant == 2:
        ac.operational_mode, ac.swing_mode, ac.aux_mode = int(s["mode"]), int(s["swing"]), int(s["aux"])
        ac.fan_speed = int(s["fan"])
    try:
        out = rig.run(ac.apply())
        ctl = rig.dev.ac.controls[-1] if rig.dev.ac.controls else None
        body = next((f.body[:-1] for f in reversed(rig.dev.ac.frames) if f.body[0] == 0x40), None)
        rej = rig.dev.ac.rejected[-1][1] if rig.dev.ac.rejected else None
        return out, ctl, body, rej
    finally:
        rig.close()


def judge(st: Stats, s, out, ctl, body, rej, table):
    prob = None
    if out[0] != "ok":
        prob = f"apply raised {type(out[1]).__name__}"
    elif ctl is None:
        prob = f"device received no acceptable control command ({rej})"
    else:
        want, got = requested_tuple(s), decoded_tuple(ctl)
        bad = [n for n, w, g in zip(NAMES, want, got) if w != g]
        if ctl["turbo_b8"] != ctl["turbo_b10"]:
            bad.append("turbo(bytes 8/10 disagree)")
        if ctl["force_aux"]:
            bad.append("force_aux set")
        if body[1] & 0x02 == 0 or body[7] & 0x30 != 0x30:
            st.extra["constant_bits_differ_from_vendor(observation)"] += 1
        if bad:
            prob = "fields differ: " + ",".join(bad)
        else:
            prev = table.get(body)
            if prev is not None and prev != want:
                prob = "two different requested states produced the same body"
            table[body] = want
    if prob:
        st.violation("control " + prob[:90], s, {"requested": list(map(str, requested_tuple(s)))},
                     {"decoded": list(map(str, decoded_tuple(ctl))) if ctl else None, "body": body.hex() if body else None})
    return prob


def run_shard(shard, tier) -> Stats:
    _, cases = shard
    st = Stats()
    det = Determinism(first=3, every=499)
    table = {}
    for ci, s in enumerate(cases):
        for variant in ((0, 1, 2, 3, 4, 5) if ci % 4 == 0 else (0,)):
            res = execute(s, variant)
            if det.due():
                r2 = execute(s, variant)
                det.check((str(res[0]), res[2]), (str(r2[0]), r2[2]), s)
            case = s if not variant else {**s, "variant": VARIANTS[variant]}
            prob = judge(st, case, *res, table if not variant else {})
            st.ev((tuple(sorted(s.items())), variant), "match" if not prob else "differ", True,
                  sample=None if len(st.samples) >= 2 else {"requested": s, "body": res[2].hex() if res[2] else None})
    # the same client object applies vector after vector (and a second client interleaves): every body must still
    # encode exactly the vector requested at that moment
    for lo in range(0, len(cases), 25):
        seq = cases[lo:lo + 25]
        rig = Rig(2)
        a, b = rig.client(), rig.client()
        try:
            for i, s_ in enumerate(seq):
                ac = a if i % 3 else b
                dz.apply_to_client(ac, s_, aliases=(lo // 25) % 2 == 1)
                n0 = len(rig.dev.ac.controls)
                out = rig.run(ac.apply())
                ctl = rig.dev.ac.controls[-1] if len(rig.dev.ac.controls) > n0 else None
                body = next((f.body[:-1] for f in reversed(rig.dev.ac.frames) if f.body[0] == 0x40), None) if ctl else None
                prob = judge(st, {**s_, "variant": "same client, vector %d of a sequence" % i}, out, ctl, body,
                             rig.dev.ac.rejected[-1][1] if rig.dev.ac.rejected else None, {})
                st.ev((tuple(sorted(s_.items())), "seq", lo), "match" if not prob else "differ", True)
                if prob:
                    break
        finally:
            rig.close()
    st.extra["distinct_bodies"] = len(table)
    st.reruns += det.reruns
    return st


def replay(case):
    st = Stats()
    if str(case.get("variant", "")).startswith("same client"):
        return {"note": "sequence case: re-run ./check C10 to reproduce; the vector alone on a fresh client:",
                "fresh": replay({k: x for k, x in case.items() if k != "variant"})}
    v = VARIANTS.index(case.get("variant", ""))
    res = execute({k: x for k, x in case.items() if k != "variant"}, v)
    prob = judge(st, case, *res, {})
    return {"problem": prob, "body": res[2].hex() if res[2] else None}
