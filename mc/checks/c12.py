"""C12 - Every emitted command is a well-formed, device-acceptable frame; message ids advance by one mod 256."""
from __future__ import annotations

import asyncio
from itertools import combinations

import msmart.crc8 as lib_crc8
from msmart.device import AirConditioner as AC
from msmart.device.AC import command as cmd

from .. import design as dz
from .. import refcodec as rc
from ..harness import Determinism, World, filler
from ..refdevice import RefAC, cap_record
from ..report import Stats
from ..util import Rig

PROPERTY = "C12"
LEVEL = "model_checking"
RULE = ("(E1) every Command subclass with every parameter value in its domain - GetPropertiesCommand for all 4096 subsets of the 12 "
        "property ids, SetPropertiesCommand for all 512 subsets of the 9 supported ids x every enum value, SetStateCommand over the "
        "C10 design, both capability pages, display toggle with beep on/off, state/energy/humidity queries - is serialised and fed to "
        "an independent spec-conforming device parser (0xAA, length byte, appliance 0xAC, frame type per command, message id + CRC-8, "
        "checksum, body grammar), also as every ordered pair of ~30 commands of all classes and sizes; the library CRC table is compared with a bitwise CRC-8. (E3 history) every public AirConditioner "
        "operation is driven on the simulated wire in long mixed sequences (with injected retransmissions, commands that are never answered, answers in both trailer styles and several initial "
        "counter values): the device must accept every frame and ids must advance by exactly one modulo 256, retransmissions "
        "repeating their id. state = (last id, operation index); transition = one command on the wire")
ASSUMPTIONS = ["the device-side grammar is the one in mc/refdevice.py (transcribed from the vendor Lua)",
               "Command._message_id is process-wide state; the harness seeds it per execution"]
ALL_PROPS = list(cmd.PropertyId)
SUPPORTED = [p for p in ALL_PROPS if p._supported]


def hist_len(tier):
    return 70000 if tier == "thorough" else 1500


def bounds(tier):
    return {"get_properties_subsets": 2 ** len(ALL_PROPS), "set_properties_subsets": 2 ** len(SUPPORTED),
            "history_commands": hist_len(tier), "initial_counters": [0, 250, 65530, 2 ** 31 - 3, 2 ** 64 - 2]}


def shards(tier):
    out = [("crc", 0), ("getprops", 0), ("getprops", 1), ("setprops", 0), ("setprops", 1), ("setstate", 0), ("misc", 0), ("reuse", 0),
           ("concurrent", 0), ("pairs", 0), ("pairs", 1)]
    n = hist_len(tier)
    for i, start in enumerate([0, 250, 65530, 2 ** 31 - 3, 2 ** 64 - 2]):
        out.append(("history", i, start, n if i == 0 else min(n, 1500)))
    out.append(("history-debuglog", 0, 0, 600))
    return out


def accept(st: Stats, dev: RefAC, frame, case, want_cmd: int, want_type: int):
    if callable(frame):
        try:
            frame = frame()
        except Exception as e:  # noqa: BLE001 - a command that cannot be serialised is not well-formed
            st.violation(f"{case['cmd']}: tobytes raised {type(e).__name__}", case, "a frame", str(e)[:100])
            return "raised"
    n0, r0 = len(dev.frames), len(dev.rejected)
    resp = dev.handle(frame)
    prob = None
    if len(dev.rejected) > r0:
        prob = dev.rejected[-1][1]
    elif len(dev.frames) != n0 + 1:
        prob = "not parsed"
    else:
        f = dev.frames[-1]
        if f.body[0] != want_cmd:
            prob = f"command id {f.body[0]:#x}"
        elif f.frame_type != want_type:
            prob = f"frame type {f.frame_type}"
        elif not resp:
            prob = "device produced no response"
    if prob:
        st.violation(f"{case['cmd']}: {prob.split(' (')[0]}"[:80], case, "accepted by a spec-conforming device parser", prob, frame.hex())
    return prob


PVALUES = {
    cmd.PropertyId.BREEZE_AWAY: [False, True], cmd.PropertyId.BREEZELESS: [False, True], cmd.PropertyId.BUZZER: [False, True],
    cmd.PropertyId.IECO: [False, True], cmd.PropertyId.SELF_CLEAN: [False, True],
    cmd.PropertyId.BREEZE_CONTROL: list(AC.BreezeMode), cmd.PropertyId.RATE_SELECT: list(AC.RateSelect),
    cmd.PropertyId.SWING_LR_ANGLE: list(AC.SwingAngle), cmd.PropertyId.SWING_UD_ANGLE: list(AC.SwingAngle),
}


def run_direct(st: Stats, kind, part):
    World().close()
    dev = RefAC(cap_pages=[[cap_record(0x0212, 1)], [cap_record(0x0214, 1)]])
    if kind == "crc":
        import random
        for b in range(256):
            ok = lib_crc8.calculate(bytes([b])) == rc.crc8(bytes([b]))
            if not ok:
                st.violation(f"crc table entry {b}", {"cmd": "crc", "byte": b}, rc.crc8(bytes([b])), lib_crc8.calculate(bytes([b])))
            st.ev(("crc", b), "ok" if ok else "bad", True)
        for n in range(0, 64):
            for pat in range(4):
                data = [bytes(n), b"\xff" * n, bytes(range(n)), filler(f"c12/{n}", n)][pat]
                ok = lib_crc8.calculate(data) == rc.crc8(data)
                if not ok:
                    st.violation("crc multi-byte", {"cmd": "crc", "data": data}, rc.crc8(data), lib_crc8.calculate(data))
                st.ev(("crcn", n, pat), "ok" if ok else "bad", n > 0)
    elif kind == "getprops":
        idx = 0
        for k in range(len(ALL_PROPS) + 1):
            for sub in combinations(ALL_PROPS, k):
                idx += 1
                if idx % 2 != part:
                    continue
                for container in (list, set):
                    c = cmd.GetPropertiesCommand(container(sub))
                    case = {"cmd": "GetProperties", "props": [int(p) for p in sub], "container": container.__name__}
                    prob = accept(st, dev, c.tobytes, case, 0xB1, 0x03)
                    if not prob and sorted(dev.prop_gets[-1]) != sorted(int(p) for p in sub):
                        prob = "ids differ"
                        st.violation("GetProperties: requested ids differ", case, sorted(int(p) for p in sub), dev.prop_gets[-1])
                    st.ev(("gp", sub, container.__name__), "ok" if not prob else "bad", k > 0,
                          sample=None if k != 3 or len(st.samples) > 0 else case)
    elif kind == "setprops":
        idx = 0
        for k in range(len(SUPPORTED) + 1):
            for sub in combinations(SUPPORTED, k):
                idx += 1
                if idx % 2 != part:
                    continue
                for variant in range(8):
                    props = {p: PVALUES[p][variant % len(PVALUES[p])] for p in sub}
                    c = cmd.SetPropertiesCommand(props)
                    case = {"cmd": "SetProperties", "props": {str(int(p)): int(v) for p, v in props.items()}}
                    prob = accept(st, dev, c.tobytes, case, 0xB0, 0x02)
                    if not prob and [pid for pid, _ in dev.prop_sets[-1]] != [int(p) for p in props]:
                        prob = "ids differ"
                        st.violation("SetProperties: ids differ", case, [int(p) for p in props], dev.prop_sets[-1])
                    st.ev(("sp", sub, variant), "ok" if not prob else "bad", k > 0,
                          sample=None if k != 2 or len(st.samples) > 0 else case)
    elif kind == "reuse":
        # the same command object serialised again after the caller's container changed: still a well-formed frame
        for k in range(0, len(ALL_PROPS)):
            lst = list(ALL_PROPS[:k])
            c = cmd.GetPropertiesCommand(lst)
            for grow in range(0, 4):
                case = {"cmd": "GetProperties(reused object)", "initial": k, "now": len(lst)}
                prob = accept(st, dev, c.tobytes, case, 0xB1, 0x03)
                if not prob and sorted(dev.prop_gets[-1]) != sorted(int(p) for p in lst):
                    st.violation("GetProperties(reused object): requested ids differ", case, [int(p) for p in lst], dev.prop_gets[-1])
                st.ev(("reuse-get", k, grow), "ok" if not prob else "bad", True)
                if len(lst) < len(ALL_PROPS):
                    lst.append(ALL_PROPS[len(lst)])
        for k in range(0, len(SUPPORTED)):
            d = {p: PVALUES[p][0] for p in SUPPORTED[:k]}
            c = cmd.SetPropertiesCommand(d)
            for grow in range(0, 4):
                case = {"cmd": "SetProperties(reused object)", "initial": k, "now": len(d)}
                prob = accept(st, dev, c.tobytes, case, 0xB0, 0x02)
                st.ev(("reuse-set", k, grow), "ok" if not prob else "bad", True)
                if len(d) < len(SUPPORTED):
                    d[SUPPORTED[len(d)]] = PVALUES[SUPPORTED[len(d)]][-1]
        for mk in (cmd.GetStateCommand, cmd.GetEnergyUsageCommand, cmd.ToggleDisplayCommand, cmd.SetStateCommand):
            c = mk()
            ids = []
            for rep in range(3):
                case = {"cmd": f"{mk.__name__}(reused object)", "rep": rep}
                prob = accept(st, dev, c.tobytes, case, 0x40 if mk is cmd.SetStateCommand else 0x41, 0x02 if mk is cmd.SetStateCommand else 0x03)
                ids.append(dev.msg_ids[-1] if not prob else None)
                st.ev(("reuse-fixed", mk.__name__, rep), "ok" if not prob else "bad", True)
            # serialising one object again is either a new command (+1) or a repeat of the same one (same id): both are fine
            if None not in ids and any((b - a) % 256 not in (0, 1) for a, b in zip(ids, ids[1:])):
                st.violation(f"{mk.__name__}(reused object): message id jumps", {"cmd": mk.__name__}, "+1 or repeat", ids)
    elif kind == "pairs":
        # every ordered pair of commands from an alphabet that contains every class in several sizes (so that commands of
        # different kinds but equal length meet): the second one is still what its class documents
        alpha = []
        for k in range(0, len(ALL_PROPS) + 1):
            alpha.append((f"GetProperties[{k}]", lambda k=k: cmd.GetPropertiesCommand(list(ALL_PROPS[:k])), 0xB1, 3))
        for k in range(0, len(SUPPORTED) + 1):
            alpha.append((f"SetProperties[{k}]", lambda k=k: cmd.SetPropertiesCommand({p_: PVALUES[p_][-1] for p_ in SUPPORTED[:k]}), 0xB0, 2))
        alpha += [("GetState", cmd.GetStateCommand, 0x41, 3), ("GetEnergyUsage", cmd.GetEnergyUsageCommand, 0x41, 3),
                  ("GetHumidity", cmd.GetHumidityCommand, 0x41, 3), ("ToggleDisplay", cmd.ToggleDisplayCommand, 0x41, 3),
                  ("SetState", cmd.SetStateCommand, 0x40, 2), ("GetCapabilities", cmd.GetCapabilitiesCommand, 0xB5, 3),
                  ("GetCapabilities(additional)", lambda: cmd.GetCapabilitiesCommand(True), 0xB5, 3)]
        idx = 0
        for na, mka, ca, ta in alpha:
            for nb, mkb, cb, tb in alpha:
                idx += 1
                if idx % 2 != part:
                    continue
                case = {"cmd": f"{nb} right after {na}"}
                p1 = accept(st, dev, mka().tobytes, {"cmd": na}, ca, ta)
                id1 = dev.msg_ids[-1] if not p1 else None
                p2 = accept(st, dev, mkb().tobytes, case, cb, tb)
                if not p1 and not p2 and (dev.msg_ids[-1] - id1) % 256 != 1:
                    st.violation("pair of commands: message id does not advance by one", case, (id1 + 1) % 256, dev.msg_ids[-1])
                st.ev(("pair", na, nb), "ok" if not (p1 or p2) else "bad", True)
    elif kind == "concurrent":
        run_concurrent(st)
    elif kind == "setstate":
        from .c10 import gen_cases
        for s in gen_cases():
            c = cmd.SetStateCommand()
            c.beep_on, c.power_on, c.target_temperature = s["beep"], s["power"], s["temp"]
            c.operational_mode, c.fan_speed, c.swing_mode = s["mode"], s["fan"], s["swing"]
            c.eco, c.turbo, c.fahrenheit, c.sleep = s["eco"], s["turbo"], s["fahrenheit"], s["sleep"]
            c.freeze_protection, c.follow_me, c.purifier = s["freeze"], s["follow_me"], s["purifier"]
            c.target_humidity = s["humidity"]
            c.aux_heat, c.independent_aux_heat = s["aux"] == 1, s["aux"] == 2
            prob = accept(st, dev, c.tobytes, {"cmd": "SetState", "state": s}, 0x40, 0x02)
            st.ev(("ss", tuple(sorted(s.items()))), "ok" if not prob else "bad", True)
    else:
        for mk, name, cid, ft in [
            (lambda: cmd.GetCapabilitiesCommand(), "GetCapabilities", 0xB5, 3),
            (lambda: cmd.GetCapabilitiesCommand(True), "GetCapabilities(additional)", 0xB5, 3),
            (lambda: cmd.GetStateCommand(), "GetState", 0x41, 3),
            (lambda: cmd.GetEnergyUsageCommand(), "GetEnergyUsage", 0x41, 3),
            (lambda: cmd.GetHumidityCommand(), "GetHumidity", 0x41, 3),
        ]:
            for rep in range(300):     # across every message id value
                prob = accept(st, dev, mk().tobytes, {"cmd": name, "rep": rep}, cid, ft)
                st.ev(("misc", name, rep), "ok" if not prob else "bad", True)
        for beep in (False, True):
            for rep in range(300):
                c = cmd.ToggleDisplayCommand()
                c.beep_on = beep
                before = dev.state["display_on"]
                prob = accept(st, dev, c.tobytes, {"cmd": "ToggleDisplay", "beep": beep, "rep": rep}, 0x41, 3)
                if not prob and (dev.state["display_on"] == before or dev.display_beep != beep):
                    prob = "not understood as a display toggle with the requested beep"
                    st.violation("ToggleDisplay: " + prob, {"cmd": "ToggleDisplay", "beep": beep}, "toggle", "no toggle")
                st.ev(("misc", "toggle", beep, rep), "ok" if not prob else "bad", True)


def run_concurrent(st: Stats):
    """Two (and three) devices refreshed concurrently: every message id of the run is used exactly once, without gaps."""
    import asyncio
    from ..simdev import SimDevice
    from ..harness import World
    for ndev in (2, 3):
        for start in (0, 250):
            w = World(message_id=start)
            devs, acs = [], []
            for k in range(ndev):
                model = RefAC(cap_pages=caps_full())
                d = SimDevice(version=2, device_id=100 + k, ac=model)
                w.net.listen(f"10.9.0.{k + 1}", 6444, d)
                devs.append(d)
                a = AC(ip=f"10.9.0.{k + 1}", port=6444, device_id=100 + k)
                a.enable_energy_usage_requests = True
                acs.append(a)

            async def drive():
                await asyncio.gather(*(a.get_capabilities() for a in acs))
                for _ in range(3):
                    await asyncio.gather(*(a.refresh() for a in acs))
                    await asyncio.gather(*(a.apply() for a in acs))

            try:
                out = w.run(drive())
                case = {"cmd": "concurrent", "devices": ndev, "start": start}
                if out[0] != "ok":
                    st.violation(f"concurrent: driver ended with {type(out[1]).__name__}", case, "completes", str(out[1])[:100])
                wire = [rc.v2_parse(e[3]).frame for e in w.net.log if e[1] == "tx"]
                ids = [rc.frame_parse(f).msg_id for f in wire]
                # with concurrent tasks the order on the wire is not the order of allocation (both orders are legitimate), but
                # every id of the run must be used exactly once and without gaps
                offs = sorted((i - start - 1) % 256 for i in ids)
                bad = offs != list(range(len(ids))) if len(ids) < 256 else False
                if bad:
                    st.violation("concurrent: message ids are not a gap-free, duplicate-free run", case, "each id once", {"ids": ids[:24]})
                st.transitions += len(ids)
                st.ev(("concurrent", ndev, start), "ok" if not bad else "bad", True, sample={**case, "ids": ids[:12]})
            finally:
                w.close()


def caps_full():
    return [[cap_record(0x0009, 1), cap_record(0x000A, 1), cap_record(0x0039, 1), cap_record(0x0048, 2), cap_record(0x0043, 1),
             cap_record(0x00E3, 1), cap_record(0x0216, 2), cap_record(0x021F, 2)],
            [cap_record(0x0212, 1), cap_record(0x0214, 1), cap_record(0x0224, 1)]]


def run_history(st: Stats, idx, start, n):
    """Long mixed sequence of public operations; ids observed on the wire."""
    dev_model = RefAC(cap_pages=caps_full())
    drop = {"next": 0}

    def script(req):
        if drop["next"]:
            drop["next"] -= 1
            return                      # first transmission lost -> the library retransmits the same command
                                        # (3 lost: the command is never answered; the NEXT command still takes the next id)
        for p in req.responses:
            req.send(p)

    rig = Rig(2, ac=dev_model, script=script, message_id=start)
    ac = rig.client()
    ac2 = rig.client()      # a second instance shares the process-wide counter
    ops = ["refresh", "apply", "caps", "toggle", "clean", "refresh2", "props-apply", "energy-refresh"]

    async def drive():
        i = 0
        while len(rig.dev.rx) < n:
            op = ops[i % len(ops)]
            if i % 7 == 3:
                drop["next"] = 1
            if i % 11 == 5:
                drop["next"] = 3
            # now and then the unit answers in the other trailer style (additive check instead of CRC-8): what the library
            # decodes must not influence what it emits
            dev_model.check = "sum" if i % 13 in (6, 7) else "crc"
            if op == "refresh":
                await ac.refresh()
            elif op == "apply":
                ac.target_temperature = 17 + (i % 14)
                await ac.apply()
            elif op == "caps":
                await ac.get_capabilities()
            elif op == "toggle":
                ac.beep = bool(i & 8)
                await ac.toggle_display()
            elif op == "clean":
                await ac.start_self_clean()
            elif op == "refresh2":
                await ac2.refresh()
            elif op == "props-apply":
                ac.horizontal_swing_angle = AC.SwingAngle.POS_3
                ac.rate_select = AC.RateSelect.LEVEL_2
                ac.ieco = bool(i & 16)
                await ac.apply()
            else:
                ac.enable_energy_usage_requests = True
                await ac.refresh()
            i += 1
        return i

    try:
        out = rig.run(drive())
        case = {"cmd": "history", "start": start, "n": n}
        if out[0] != "ok":
            st.violation(f"history: driver ended with {type(out[1]).__name__}", case, "completes", str(out[1])[:200])
        if dev_model.rejected:
            st.violation(f"history: device rejected a frame ({dev_model.rejected[0][1]})"[:80], case, "accepted",
                         dev_model.rejected[0][0].hex())
        prev_id, prev_frame = None, None
        kinds = set()
        for e in rig.dev.rx:
            if not e["ok"]:
                st.violation("history: undecodable packet on the wire", case, "valid V2 packet", e.get("error"))
                continue
            fr = e["frame"]
            try:
                f = rc.frame_parse(fr)
            except rc.RefError as ex:
                st.violation("history: malformed frame on the wire", case, "well-formed", str(ex), fr.hex())
                continue
            kinds.add((f.body[0], f.frame_type))
            if prev_id is not None:
                if fr == prev_frame:
                    pass                                    # retransmission repeats its id
                elif f.msg_id != (prev_id + 1) % 256:
                    st.violation(f"history: message id step {prev_id}->{f.msg_id}"[:60] if False else "history: message id does not advance by one",
                                 {**case, "at": st.transitions}, (prev_id + 1) % 256, f.msg_id, fr.hex())
            prev_id, prev_frame = f.msg_id, fr
            st.transitions += 1
            st.state((f.msg_id, f.body[0]))
        st.extra["history_commands"] += len(rig.dev.rx)
        st.notes["history_command_kinds"] = sorted(f"{a:#x}/{b}" for a, b in kinds)
        st.ev(("history", start, n), "ok", True, sample={**case, "frames_on_wire": len(rig.dev.rx),
                                                          "first_ids": [rc.frame_parse(e["frame"]).msg_id for e in rig.dev.rx[:6] if e["ok"]]})
    finally:
        rig.close()


def run_shard(shard, tier) -> Stats:
    st = Stats()
    if shard[0] == "history-debuglog":
        # the same, with the library's debug logging switched on by the user
        from ..harness import debug_logging
        with debug_logging():
            run_history(st, shard[1], shard[2], shard[3])
    elif shard[0] == "history":
        run_history(st, shard[1], shard[2], shard[3])
    else:
        run_direct(st, shard[0], shard[1])
    st.traces = st.evaluations
    return st


def replay(case):
    st = Stats()
    if case.get("cmd") == "history":
        run_history(st, 0, case["start"], case["n"])
    else:
        for k in ("crc", "getprops", "setprops", "setstate", "misc", "pairs"):
            run_direct(st, k, 0)
            run_direct(st, k, 1)
    return sorted(st.viol_counts)
