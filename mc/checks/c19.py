"""C19 - Cloud token retrieval follows the API contract, returns only matching credentials."""
from __future__ import annotations

from itertools import product

from msmart.cloud import CloudError, NetHomePlusCloud
from msmart.discover import Discover

from .. import refcodec as rc
from .. import simdisc as sd
from ..harness import Determinism, VDateTime, World, filler
from ..refcloud import RefCloud
from ..refdevice import RefAC
from ..report import Stats
from ..simdev import SimDevice

PROPERTY = "C19"
LEVEL = "fault_enumeration"
RULE = ("E1 x fault sequences: accounts (built-in per region, custom with '+@_'), device ids in both byte orders, token lists with "
        "the matching entry absent / first / middle / last / among near misses (one hex digit off, other letter case, prefix); per "
        "request (login-id, login, getToken) every answer sequence over {ok, timeout, HTTP 500/502/503/504/404/302, API error, connection dropped, undecodable body} up to the retry budget "
        "(quick tier: 17 patterns each, 4913 flows; thorough tier: all 31 sequences of k <= 2 timeouts followed by each of the 10 terminal answers, or three timeouts, per request: 29791 flows). The real NetHomePlusCloud runs over httpx.MockTransport against a reference server that "
        "verifies signature, constant fields, time stamp, login-id/password derivation and session id of EVERY request. Oracle: no "
        "request rejected by the server; attempts per request as the retry contract says; (token,key) of the exact match only; "
        "failures are CloudError. Discover.discover(auto_connect=True) against a simulated V3 device whose credentials are "
        "registered under the little- or big-endian udpid, three devices at once in every mix of byte orders and rejection styles, also as the second discovery of a process with another region / account / a rotated session (ids include some whose udpid starts or ends with a zero byte) must end authenticated with them. non-trivial = every flow")
ASSUMPTIONS = ["the reference server encodes the NetHome Plus contract as implemented by known-working clients (sign = sha256(path + "
               "sorted query + app key), password = sha256(loginId + sha256(pw) + app key))",
               "like the real cloud, the server answers an unregistered udpid with an entry that the device will not accept"]
PATTERNS = [("ok",), ("timeout", "ok"), ("timeout", "timeout", "ok"), ("timeout", "timeout", "timeout"),
            ("500",), ("timeout", "500"), ("timeout", "timeout", "500"), ("api",), ("timeout", "api"), ("timeout", "timeout", "api"),
            ("302",), ("timeout", "404"), ("proto",), ("timeout", "decode"), ("503",), ("timeout", "502"), ("timeout", "timeout", "504")]
TERMINALS = ["ok", "500", "502", "503", "504", "404", "302", "api", "proto", "decode"]
# thorough tier: EVERY answer sequence up to a budget of 3 (k timeouts followed by each terminal answer, and three timeouts)
PATTERNS_T = [("timeout",) * k + (t,) for k in range(3) for t in TERMINALS] + [("timeout",) * 3]
EPS = ["/v1/user/login/id/get", "/v1/user/login", "/v1/iot/secure/getToken"]
ACCOUNTS = [("US", None, None), ("DE", None, None), ("KR", None, None), ("US", "user+tag@example_mail.com", "pa55_word+@"),
            ("DE", "a@b.c", "x"), ("US", "first last&co=1%@example.com", "pass word"), ("KR", "x@y.z", " correct horse battery ")]


def patterns(tier):
    return PATTERNS_T if tier == "thorough" else PATTERNS


def bounds(tier):
    return {"answer_patterns_per_request": len(patterns(tier)), "flows": len(patterns(tier)) ** 3,
            "answer_alphabet": ["timeout"] + TERMINALS if tier == "thorough" else "14 listed patterns", "accounts": len(ACCOUNTS),
            "token_list_shapes": 9, "device_ids": 6, "byte_orders": 2}


def shards(tier):
    n = 64 if tier == "thorough" else 12
    out = [("flows", i, n) for i in range(n)]
    out += [("lists", a, 0) for a in range(len(ACCOUNTS))]
    out += [("discover", i, 0) for i in range(4)]
    out += [("discover2", i, 0) for i in range(len(PATTERNS))]
    out += [("discover3", i, 0) for i in range(4)]
    out += [("discover4", i, 0) for i in range(4)]
    return out


def stamp(w):
    return lambda: VDateTime.now(__import__("datetime").timezone.utc).strftime("%Y%m%d%H%M%S")


def creds_for(acc):
    region, account, password = acc
    if account is None:
        account, password = NetHomePlusCloud.CLOUD_CREDENTIALS[region]
    return region, account, password


def udpid_hex(device_id: int, endian: str) -> str:
    return rc.udpid(device_id.to_bytes(6, endian)).hex()


def model_outcome(plan):
    """Reference retry contract: (expected attempts per endpoint, index of failing endpoint or None)."""
    import msmart.cloud as _mc
    R = _mc.BaseCloud.RETRIES          # the configured budget, whatever it is
    attempts, failed = [], None
    for i, ep in enumerate(EPS):
        seq = (list(plan[ep]) + ["ok"] * R)[:max(R, 1)]
        n = 0
        res = None
        for a in seq[:R]:
            n += 1
            if a != "timeout":
                res = a
                break
        attempts.append(n)
        if res != "ok":
            failed = i
            break
    return attempts, failed


# HTTP statuses that a client may legitimately treat as momentary and retry INSIDE the budget (the statement fixes "cloud error
# after at most the configured number of attempts", not whether a gateway error is given a second chance)
RETRYABLE = {"500", "502", "503", "504"}


def model_outcomes(plan):
    """All outcomes the contract allows: set of (attempts per endpoint, index of the failing endpoint or None).
    Timeouts are retried until the budget is used up; any other failure ends the flow at once - except that a 5xx answer may
    also be retried while attempts remain; nothing is ever attempted more often than the budget."""
    import msmart.cloud as _mc
    R = _mc.BaseCloud.RETRIES

    def ep_outcomes(seq):
        outs = set()

        def rec(i, n):
            a = seq[i]
            n += 1
            if a == "ok":
                outs.add((n, True))
            elif a == "timeout":
                if n < R:
                    rec(i + 1, n)
                else:
                    outs.add((n, False))
            else:
                outs.add((n, False))
                if a in RETRYABLE and n < R:
                    rec(i + 1, n)
        rec(0, 0)
        return outs
    results = set()

    def walk(i, attempts):
        if i == len(EPS):
            results.add((tuple(attempts), None))
            return
        seq = (list(plan[EPS[i]]) + ["ok"] * R)[:max(R, 1)]
        for n, ok in ep_outcomes(seq):
            if ok:
                walk(i + 1, attempts + [n])
            else:
                results.add((tuple(attempts + [n] + [0] * (len(EPS) - 1 - i)), i))
    walk(0, [])
    return results


def run_flow(acc, plan, tokens, udpid, bogus=False):
    w = World()
    region, account, password = creds_for(acc)
    srv = RefCloud(account, password, tokens, now_stamp=stamp(w), plan=plan, bogus_for_unknown=bogus)
    cloud = NetHomePlusCloud(region, account=acc[1], password=acc[2], get_async_client=srv.client_factory())

    async def drive():
        await cloud.login()
        return await cloud.get_token(udpid)

    try:
        out = w.run(drive())
        return out, srv
    finally:
        w.close()


def token_lists(udpid: str):
    """(label, list, expected index or None)."""
    def ent(u, n):
        return {"udpId": u, "token": f"{n:02x}" * 64, "key": f"{n + 1:02x}" * 32}
    off = udpid[:-1] + ("0" if udpid[-1] != "0" else "1")
    off_first = ("f" if udpid[0] != "f" else "e") + udpid[1:]
    upper = udpid.upper() if udpid.upper() != udpid else udpid.lower()
    prefix = udpid[:-2]
    longer = udpid + "00"
    others = [ent(filler(f"c19/u{i}", 16).hex(), 10 + 2 * i) for i in range(3)]
    m = ent(udpid, 0xA0)
    return [
        ("absent-empty", [], None),
        ("absent-others", others, None),
        ("only", [m], 0),
        ("first", [m] + others, 0),
        ("middle", others[:1] + [m] + others[1:], 1),
        ("last", others + [m], 3),
        ("near-misses-before", [ent(off, 1), ent(off_first, 3), ent(upper, 5), ent(prefix, 7), ent(longer, 9), m], 5),
        ("near-misses-only", [ent(off, 1), ent(off_first, 3), ent(upper, 5), ent(prefix, 7), ent(longer, 9)], None),
        ("near-misses-after", [m, ent(off, 1), ent(upper, 5)], 0),
    ]


def check_server(st: Stats, case, srv, what):
    if srv.problems:
        st.violation(f"{what}: request rejected by a conforming server ({srv.problems[0].split(':')[1].strip().split(' ')[0]})",
                     case, "every request verifies", srv.problems[:3])
        return True
    return False


def run_shard(shard, tier) -> Stats:
    kind, a, b = shard
    st = Stats()
    det = Determinism(first=2, every=199)
    dev_id = 0x0000_1122_3344_5566 & (2 ** 48 - 1)
    if kind == "flows":
        udpid = udpid_hex(dev_id, "little")
        tokens = token_lists(udpid)[4][1]
        idx = 0
        for p0, p1, p2 in product(patterns(tier), repeat=3):
            idx += 1
            if idx % b != a:
                continue
            plan = {EPS[0]: list(p0), EPS[1]: list(p1), EPS[2]: list(p2)}
            acc = ACCOUNTS[idx % len(ACCOUNTS)]
            case = {"kind": "flow", "account": list(acc), "plan": plan}
            out, srv = run_flow(acc, plan, tokens, udpid)
            if det.due():
                o2, s2 = run_flow(acc, plan, tokens, udpid)
                det.check((str(out), srv.counts), (str(o2), s2.counts), case)
            attempts, failed = model_outcome(plan)
            allowed = model_outcomes(plan)
            prob = None
            got_attempts = tuple(srv.counts.get(ep, 0) for ep in EPS)
            want_attempts = attempts + [0] * (3 - len(attempts))
            succeeded = out[0] == "ok"
            match = [f for a_, f in allowed if a_ == got_attempts and (f is None) == succeeded]
            if check_server(st, case, srv, "flow"):
                prob = "rejected"
            elif out[0] != "ok" and not isinstance(out[1], CloudError):
                prob = f"failure must surface as CloudError, got {str(out)[:80]}"
            elif not match:
                if not any(a_ == got_attempts for a_, f in allowed):
                    prob = f"attempts per request {list(got_attempts)}, contract says {want_attempts}" + (" (or a 5xx answer retried inside the budget)" if len(allowed) > 1 else "")
                elif succeeded:
                    prob = "flow succeeded although a request failed for good"
                else:
                    prob = f"flow should succeed with the matching credentials, got {str(out)[:80]}"
            elif succeeded and tuple(out[1]) != ("a0" * 64, "a1" * 32):
                prob = f"flow should succeed with the matching credentials, got {str(out)[:80]}"
            failed = None if succeeded else next((i for i in (2, 1, 0) if got_attempts[i]), 0)
            if prob and prob != "rejected":
                st.violation("flow: " + prob.split(",")[0].split(" [")[0].split(" (")[0], case, {"allowed (attempts, fails_at)": sorted(allowed, key=str)[:4]}, prob)
            st.ev(("flow", p0, p1, p2), "ok" if failed is None else f"CloudError@{failed}", True,
                  sample=None if len(st.samples) else {**case, "requests": [r["path"] for r in srv.requests]})
    elif kind == "lists":
        acc = ACCOUNTS[a]
        for did in (0, 1, 0xFF, dev_id, 2 ** 48 - 1, 0x0000_8370_5A5A_0001):
            for endian in ("little", "big"):
                udpid = udpid_hex(did, endian)
                for label, lst, want_i in token_lists(udpid):
                    for order_variant in (0, 1):
                        tokens = lst if not order_variant else [dict(reversed(list(t.items()))) for t in lst]
                        case = {"kind": "list", "account": list(acc), "device_id": did, "endian": endian, "list": label}
                        plan = {}
                        out, srv = run_flow(acc, plan, tokens, udpid)
                        prob = None
                        if check_server(st, case, srv, "list"):
                            prob = "rejected"
                        elif want_i is None:
                            if out[0] != "exc" or not isinstance(out[1], CloudError):
                                prob = f"no matching entry must be a CloudError, got {str(out)[:100]}"
                        else:
                            w = lst[want_i]
                            if out[0] != "ok" or tuple(out[1]) != (w["token"], w["key"]):
                                prob = f"returned {str(out)[:100]} instead of the matching entry"
                        if prob and prob != "rejected":
                            st.violation(f"token list '{label}': " + prob.split(",")[0][:60], case, "credentials of the exact match only", prob)
                        st.ev(("list", a, did, endian, label, order_variant), "match" if want_i is not None else "CloudError", True)
    elif kind == "discover2":
        run_discover2(st, a)
    elif kind == "discover3":
        run_discover3(st, a)
    elif kind == "discover4":
        run_discover4(st, a)
    else:
        run_discover(st, a)
    st.reruns += det.reruns
    return st


def run_discover2(st: Stats, pidx: int):
    """Two V3 devices in one discovery; the cloud answers each request kind with a fault pattern.

    Whatever happens (the documented outcome of a cloud failure is a CloudError out of discover()), every request that does
    reach the server must verify - in particular no token request may be sent without the session of a successful login.
    """
    for ep in EPS:
        for acc in (ACCOUNTS[0], ACCOUNTS[5]):
            w = World()
            region, account, password = creds_for(acc)
            ids = [0x0000_0A0B_0C0D_0E01, 0x0000_0A0B_0C0D_0E02]
            regs, devs, hosts = [], [], []
            for k, did in enumerate(ids):
                token, key = filler(f"c19/2t{did}", 64), filler(f"c19/2k{did}", 32)
                regs.append({"udpId": udpid_hex(did, "little" if k == 0 else "big"), "token": token.hex(), "key": key.hex()})
                ip = f"10.3.1.{k + 7}"
                dev = SimDevice(version=3, token=token, key=key, device_id=did, ac=RefAC({"temp": 20.0 + k}))
                w.net.listen(ip, 6444, dev)
                hosts.append(sd.Host(ip, sd.reply(3, did, ip, 6444, "S" * 32, f"net_ac_00A{k}")))
                devs.append((did, token, key))
            plan = {ep: list(PATTERNS[pidx])}
            srv = RefCloud(account, password, regs, now_stamp=stamp(w), plan=plan, bogus_for_unknown=True)
            w.net.udp_responder = sd.Population(hosts)
            case = {"kind": "discover2", "endpoint": ep, "pattern": list(PATTERNS[pidx]), "account": list(acc)}
            try:
                out = w.run(Discover.discover(region=region, account=acc[1], password=acc[2], auto_connect=True,
                                              get_async_client=srv.client_factory()))
                prob = None
                import msmart.cloud as _mc
                first_final = next((a for a in (list(PATTERNS[pidx]) + ["ok"] * _mc.BaseCloud.RETRIES)[:_mc.BaseCloud.RETRIES] if a != "timeout"), "timeout")
                clean = first_final == "ok"
                # a 5xx answer may be retried inside the budget (see model_outcomes): both endings are acceptable then
                either = first_final in RETRYABLE and list(PATTERNS[pidx]).index(first_final) + 1 < _mc.BaseCloud.RETRIES
                if check_server(st, case, srv, "discover2"):
                    prob = "rejected"
                elif out[0] != "ok":
                    if not isinstance(out[1], CloudError):
                        prob = f"discover raised {type(out[1]).__name__} (only CloudError is a documented cloud failure)"
                    elif clean and not either:
                        prob = f"discover raised CloudError although the fault pattern recovers within the retry budget: {str(out[1])[:60]}"
                elif not clean and not either:
                    prob = "a cloud failure (HTTP error / API error / exhausted timeouts) did not surface as a CloudError"
                elif max(srv.counts.values()) > _mc.BaseCloud.RETRIES * (len(ids) + 1):
                    prob = f"more attempts than the retry budget allows: {srv.counts}"
                else:
                    got = sorted((d.id, d.token, d.key) for d in out[1])
                    want = sorted((did, t.hex(), k.hex()) for did, t, k in devs)
                    if (clean or either) and got != want:
                        prob = "devices not authenticated with their registered credentials"
                if prob and prob != "rejected":
                    st.violation("discover2: " + prob.split(":")[0].split(" (")[0], case, "all requests verify; devices authenticated or CloudError", prob)
                st.ev(("disc2", ep, pidx, tuple(acc)), "ok" if out[0] == "ok" else type(out[1]).__name__, True)
            finally:
                w.close()


_SPECIAL = []


def special_ids():
    """Device ids whose derived udpid has a zero first byte / zero last byte (little- and big-endian derivation)."""
    if not _SPECIAL:
        for endian in ("little", "big"):
            for test in (lambda u: u[0] == 0, lambda u: u[-1] == 0, lambda u: u[0] < 0x10 and u[0] != 0):
                _SPECIAL.append(next(d for d in range(0x0000_7000_0000_0001, 0x0000_7000_0010_0000)
                                     if test(rc.udpid(d.to_bytes(6, endian)))))
    return tuple(_SPECIAL)


def run_discover4(st: Stats, variant: int):
    """Three V3 devices authenticated concurrently by one discovery: every mix of byte orders, and of devices that reject the
    wrong-order credentials at once / only by not answering / with an error packet followed by a hang-up (so that the attempts of different devices overlap in time)."""
    from itertools import product
    combos = list(product(("little", "big"), repeat=3))
    for ci, endians in enumerate(combos):
        if ci % 4 != variant:
            continue
        for unknowns in (("error", "silent", "error"), ("silent", "error", "silent"), ("silent", "silent", "silent"),
                         ("close", "close", "error"), ("silent", "close", "close")):
            w = World()
            acc = ACCOUNTS[(ci + variant) % len(ACCOUNTS)]
            region, account, password = creds_for(acc)
            regs, devs, hosts = [], [], []
            for k in range(3):
                did = 0x0000_0D0D_0000_0001 + k
                token, key = filler(f"c19/4t{k}", 64), filler(f"c19/4k{k}", 32)
                regs.append({"udpId": udpid_hex(did, endians[k]), "token": token.hex(), "key": key.hex()})
                ip = f"10.3.3.{k + 7}"
                dev = SimDevice(version=3, token=token, key=key, device_id=did, ac=RefAC({"temp": 20.0 + k}))
                dev.unknown_token = unknowns[k]
                w.net.listen(ip, 6444, dev)
                hosts.append(sd.Host(ip, sd.reply(3, did, ip, 6444, "S" * 32, f"net_ac_00C{k}")))
                devs.append((did, token, key))
            srv = RefCloud(account, password, regs, now_stamp=stamp(w), bogus_for_unknown=True)
            w.net.udp_responder = sd.Population(hosts)
            case = {"kind": "discover4", "variant": variant, "endians": list(endians), "unknown_token": list(unknowns), "account": list(acc)}
            try:
                out = w.run(Discover.discover(region=region, account=acc[1], password=acc[2], auto_connect=True,
                                              get_async_client=srv.client_factory()))
                prob = None
                if check_server(st, case, srv, "discover4"):
                    prob = "rejected"
                elif out[0] != "ok":
                    prob = f"discover raised {type(out[1]).__name__}"
                else:
                    got = sorted((d.id, d.token, d.key) for d in out[1])
                    want = sorted((did, t.hex(), k_.hex()) for did, t, k_ in devs)
                    if got != want:
                        bad = [g[0] for g in got if g not in want]
                        prob = f"devices not authenticated with their registered credentials: {[hex(b) for b in bad]}"
                if prob and prob != "rejected":
                    st.violation("discover4: " + prob.split(":")[0], case, "every device authenticated with the credentials of either byte order", prob)
                st.ev(("disc4", endians, unknowns), "ok" if not prob else "failed", True)
            finally:
                w.close()


def run_discover3(st: Stats, variant: int):
    """Two discoveries in one process: another region / account, or the same account after the server dropped the first session."""
    scen = [("region", ACCOUNTS[0], ACCOUNTS[1]), ("region", ACCOUNTS[1], ACCOUNTS[2]), ("account", ACCOUNTS[3], ACCOUNTS[4]),
            ("session", ACCOUNTS[0], ACCOUNTS[0])][variant]
    label, acc1, acc2 = scen
    w = World()
    try:
        servers, devs = [], []
        for k, acc in enumerate((acc1, acc2)):
            region, account, password = creds_for(acc)
            did = 0x0000_0C0C_0000_0001 + k
            token, key = filler(f"c19/3t{k}", 64), filler(f"c19/3k{k}", 32)
            srv = RefCloud(account, password, [{"udpId": udpid_hex(did, "little"), "token": token.hex(), "key": key.hex()}],
                           now_stamp=stamp(w), bogus_for_unknown=True)
            if label == "session" and k == 1:
                srv = servers[0]           # same server, same account ...
                srv.tokens.append({"udpId": udpid_hex(did, "little"), "token": token.hex(), "key": key.hex()})
            servers.append(srv)
            ip = f"10.3.2.{k + 7}"
            w.net.listen(ip, 6444, SimDevice(version=3, token=token, key=key, device_id=did, ac=RefAC({"temp": 21.0 + k})))
            devs.append((did, ip, token, key))
        results = []

        async def drive():
            for k, acc in enumerate((acc1, acc2)):
                did, ip, token, key = devs[k]
                w.net.udp_responder = sd.Population([sd.Host(ip, sd.reply(3, did, ip, 6444, "S" * 32, f"net_ac_00B{k}"))])
                if label == "session" and k == 1:
                    # ... which has meanwhile dropped the session of the first discovery
                    servers[0].logged_in = False
                    servers[0].session_id = "sess-rotated-0123456789"
                try:
                    r = await Discover.discover(region=acc[0], account=acc[1], password=acc[2], auto_connect=True,
                                                get_async_client=servers[k].client_factory())
                    results.append(("ok", [(d.id, d.token, d.key, d.online) for d in r]))
                except BaseException as e:  # noqa: BLE001
                    results.append((type(e).__name__, str(e)[:80]))

        out = w.run(drive())
        case = {"kind": "discover3", "scenario": label, "variant": variant}
        prob = None
        for k, srv in enumerate(servers[:1] if label == "session" else servers):
            if check_server(st, {**case, "server": k}, srv, "discover3"):
                prob = "rejected"
        if prob is None:
            if out[0] != "ok":
                prob = f"driver raised {type(out[1]).__name__}"
            else:
                for k, res in enumerate(results):
                    did, ip, token, key = devs[k]
                    if res != ("ok", [(did, token.hex(), key.hex(), True)]):
                        prob = f"discovery {k + 1} did not authenticate its device with the credentials registered for this account: {str(res)[:100]}"
                        break
        if prob and prob != "rejected":
            st.violation(f"discover3 ({label}): " + prob.split(":")[0], case, "each discovery logs in for its own region/account/session", prob)
        st.ev(("disc3", variant), "ok" if not prob else "failed", True)
    finally:
        w.close()


def run_discover(st: Stats, variant: int):
    """auto_connect discovery of a V3 device registered under the little- or big-endian udpid."""
    for did in (0x0000_1122_3344_5566 & (2 ** 48 - 1), 1, 0xA1B2C3D4E5F6, 0x00FF00FF00FF) + special_ids():
        for endian in ("little", "big"):
            for acc, unknown in ((ACCOUNTS[variant], "error"), (ACCOUNTS[(variant + 3) % len(ACCOUNTS)], "silent"),
                                 (ACCOUNTS[(variant + 5) % len(ACCOUNTS)], "close")):
                w = World()
                region, account, password = creds_for(acc)
                token, key = filler(f"c19/t{did}", 64), filler(f"c19/k{did}", 32)
                udpid = udpid_hex(did, endian)
                srv = RefCloud(account, password, [{"udpId": udpid, "token": token.hex(), "key": key.hex()}], now_stamp=stamp(w),
                               bogus_for_unknown=True)
                ip = "10.3.0.7"
                model = RefAC({"temp": 19.5, "power": True})
                dev = SimDevice(version=3, token=token, key=key, device_id=did, ac=model)
                dev.unknown_token = unknown      # wrong-endian credentials are rejected, or just not answered
                w.net.listen(ip, 6444, dev)
                w.net.udp_responder = sd.Population([sd.Host(ip, sd.reply(3, did, ip, 6444, "S" * 32, "net_ac_00AA"))])
                case = {"kind": "discover", "device_id": did, "registered_endian": endian, "account": list(acc), "unknown_token": unknown}
                try:
                    out = w.run(Discover.discover(region=region, account=acc[1], password=acc[2], auto_connect=True,
                                                  get_async_client=srv.client_factory()))
                    prob = None
                    if check_server(st, case, srv, "discover"):
                        prob = "rejected"
                    elif out[0] != "ok":
                        prob = f"discover raised {type(out[1]).__name__}: {str(out[1])[:80]}"
                    elif len(out[1]) != 1:
                        prob = f"{len(out[1])} devices"
                    else:
                        d = out[1][0]
                        if (d.token, d.key) != (token.hex(), key.hex()):
                            prob = "device not authenticated with the registered credentials"
                        elif not d.online or d.target_temperature != 19.5:
                            prob = "device not refreshed after authentication"
                    if prob and prob != "rejected":
                        st.violation(f"discover ({endian}-endian registration): " + prob.split(":")[0], case,
                                     "authenticated with the registered credentials", prob)
                    st.ev(("disc", did, endian, tuple(acc)), "authenticated" if not prob else "failed", True)
                finally:
                    w.close()


def replay(case):
    st = Stats()
    if case["kind"] == "flow":
        udpid = udpid_hex(0x0000_1122_3344_5566 & (2 ** 48 - 1), "little")
        out, srv = run_flow(tuple(case["account"]), case["plan"], token_lists(udpid)[4][1], udpid)
        return {"outcome": str(out)[:200], "attempts": srv.counts, "server_problems": srv.problems}
    if case["kind"] == "list":
        udpid = udpid_hex(case["device_id"], case["endian"])
        lst = dict((l, t) for l, t, _ in token_lists(udpid))[case["list"]]
        out, srv = run_flow(tuple(case["account"]), {}, lst, udpid)
        return {"outcome": str(out)[:200], "server_problems": srv.problems}
    if case["kind"] == "discover4":
        run_discover4(st, case["variant"])
    elif case["kind"] == "discover3":
        run_discover3(st, case["variant"])
    elif case["kind"] == "discover2":
        for i in range(len(PATTERNS)):
            run_discover2(st, i)
    else:
        for v in range(4):
            run_discover(st, v)
    return sorted(st.viol_counts)
