"""C20 - CLI control applies the documented meaning of each setting=value pair."""
from __future__ import annotations

import sys
from itertools import combinations

import msmart.cli as cli
from msmart.device import AirConditioner as AC

from .. import refdevice as rd
from ..harness import Determinism, World, filler
from ..refdevice import RefAC
from ..report import Stats
from ..simdev import SimDevice

PROPERTY = "C20"
LEVEL = "exploration"
RULE = ("bounded-exhaustive enumeration (E1) of `msmart-ng control` command lines executed in-process (msmart.cli.main with a "
        "crafted argv, asyncio.run served by the virtual loop) against a simulated V2 device and a V3 device with --token/--key/--id: "
        "every writable setting; every enum member name in lower/UPPER/Title/mIxEd case and every member value; raw fan integers "
        "1..102; numbers as int and float at boundaries; booleans True/False/true/FALSE/1/0; display_on equal/different; every pair "
        "of settings; 4 reported device states; a catalogue of invalid names and values. Oracle: an independent interpreter of README "
        "'Control': device end state == reported state overlaid with the requested settings, exit status 0; invalid => non-zero exit "
        "(SystemExit != 0 or an uncaught exception) and no connection attempt. non-trivial = every command line")
ASSUMPTIONS = ["the reference device accepts every property id (no --capabilities)", "an uncaught exception is a non-zero process exit"]
IP = "10.4.0.9"

CAP_PAGES = None   # set below (needs refdevice.cap_record)

REPORTED = [
    {"power": True, "mode": 2, "temp": 24.0, "fan": 102, "swing": 0, "humidity": 40, "display_on": True},
    {"power": False, "mode": 4, "temp": 17.5, "fan": 40, "swing": 0xF, "eco": True, "sleep": True, "fahrenheit": True, "freeze": True,
     "follow_me": True, "purifier": True, "humidity": 65, "aux_heat": True, "display_on": False},
    {"power": True, "mode": 6, "temp": 30.5, "fan": 60, "swing": 0xC, "turbo": True, "humidity": 70, "indep_aux": True, "display_on": True,
     "display_level": 3},      # display on at an intermediate level of the 3-bit field
    {"power": True, "mode": 1, "temp": 13.0, "fan": 80, "swing": 0x3, "humidity": 35, "display_on": False},
    # a unit reporting values that are not presets of what it advertises (custom fan speed 55, half-degree setpoint)
    {"power": True, "mode": 2, "temp": 22.5, "fan": 55, "swing": 0xC, "humidity": 47, "display_on": True, "display_level": 6},
]

CAP_PAGES = [[rd.cap_record(0x0210, 5), rd.cap_record(0x0214, 1), rd.cap_record(0x0215, 1), rd.cap_record(0x0212, 1), rd.cap_record(0x0224, 1),
              rd.cap_record(0x0225, 0x22, 0x3C, 0x22, 0x3C, 0x22, 0x3C, 1)],
             [rd.cap_record(0x0009, 1), rd.cap_record(0x000A, 1), rd.cap_record(0x0048, 2), rd.cap_record(0x0043, 1), rd.cap_record(0x00E3, 1)]]

ENUMS = {"operational_mode": (AC.OperationalMode, "mode"), "fan_speed": (AC.FanSpeed, "fan"), "swing_mode": (AC.SwingMode, "swing"),
         "horizontal_swing_angle": (AC.SwingAngle, ("prop", rd.P_SWING_LR)), "vertical_swing_angle": (AC.SwingAngle, ("prop", rd.P_SWING_UD)),
         "rate_select": (AC.RateSelect, ("prop", rd.P_RATE)), "aux_mode": (AC.AuxHeatMode, "aux")}
BOOLS = {"power_state": "power", "eco": "eco", "turbo": "turbo", "sleep": "sleep", "fahrenheit": "fahrenheit",
         "freeze_protection": "freeze", "follow_me": "follow_me", "purifier": "purifier", "beep": "beep",
         "eco_mode": "eco", "turbo_mode": "turbo", "sleep_mode": "sleep", "freeze_protection_mode": "freeze",
         "ieco": ("prop", rd.P_IECO), "breeze_away": ("prop", rd.P_BREEZE_AWAY), "breezeless": ("prop", rd.P_BREEZELESS),
         "breeze_mild": ("prop", rd.P_BREEZE_CONTROL),
         "use_alternate_energy_format": None, "enable_energy_usage_requests": None}
BOOL_SPELL = [("True", True), ("False", False), ("true", True), ("FALSE", False), ("1", True), ("0", False)]
NUMBERS = {"target_temperature": ("temp", [("17", 17.0), ("17.0", 17.0), ("20.5", 20.5), ("30", 30.0), ("16.5", 16.5), ("13", 13.0),
                                           ("43.5", 43.5), ("25", 25.0)]),
           "target_humidity": ("humidity", [("35", 35), ("0", 0), ("100", 100), ("55.0", 55), ("64", 64)])}


def names_of(enum):
    return [m.name for m in enum if m.name != "DEFAULT"]


def case_variants(name: str):
    mixed = "".join(c.lower() if i % 2 else c.upper() for i, c in enumerate(name))
    return [name.lower(), name.upper(), name.title(), mixed]


def valid_cases():
    """(label, [setting=value,...], expectation list of (target, value))."""
    out = []
    for s, (enum, target) in ENUMS.items():
        members = {m.name: m for m in enum}
        for n in names_of(enum):
            m = members[n]
            for v in case_variants(n):
                out.append((f"{s} name", [f"{s}={v}"], [(target, int(m))]))
            out.append((f"{s} value", [f"{s}={int(m)}"], [(target, int(m))]))
            out.append((f"{s} float", [f"{s}={float(int(m))}"], [(target, int(m))]))
    for raw in range(1, 103):
        out.append(("fan_speed raw", [f"fan_speed={raw}"], [("fan", raw)]))
    for s, target in BOOLS.items():
        for text, val in BOOL_SPELL:
            out.append((f"{s} bool", [f"{s}={text}"], [(target, val)]))
    for s, (target, vals) in NUMBERS.items():
        for text, val in vals:
            out.append((f"{s} number", [f"{s}={text}"], [(target, val)]))
    for text, val in BOOL_SPELL:
        out.append(("display_on", [f"display_on={text}"], [("display", val)]))
    return out


def pair_cases():
    rep = [("operational_mode=heat", ("mode", 4)), ("fan_speed=33", ("fan", 33)), ("swing_mode=both", ("swing", 0xF)),
           ("aux_mode=aux_only", ("aux", 2)), ("target_temperature=21.5", ("temp", 21.5)), ("target_humidity=51", ("humidity", 51)),
           ("power_state=False", ("power", False)), ("eco=1", ("eco", True)), ("turbo=true", ("turbo", True)), ("sleep=True", ("sleep", True)),
           ("fahrenheit=1", ("fahrenheit", True)), ("freeze_protection=True", ("freeze", True)), ("follow_me=true", ("follow_me", True)),
           ("purifier=1", ("purifier", True)), ("beep=1", ("beep", True)), ("display_on=True", ("display", True)),
           ("display_on=0", ("display", False)), ("horizontal_swing_angle=pos_3", (("prop", rd.P_SWING_LR), 50)),
           ("rate_select=level_2", (("prop", rd.P_RATE), 20)), ("ieco=1", (("prop", rd.P_IECO), True)),
           ("breezeless=True", (("prop", rd.P_BREEZELESS), True))]
    out = []
    for (a, ea), (b, eb) in combinations(rep, 2):
        if a.split("=")[0] == b.split("=")[0]:
            continue
        out.append(("pair", [a, b], [ea, eb]))
        out.append(("pair", [b, a], [eb, ea]))
    # settings that share one mode: the order on the command line decides
    br = [("breeze_away", rd.P_BREEZE_AWAY), ("breezeless", rd.P_BREEZELESS), ("breeze_mild", rd.P_BREEZE_CONTROL)]
    for (na, pa), (nb, pb) in ((x, y) for x in br for y in br if x != y):
        for va, vb in ((0, 1), (1, 0), (1, 1), (0, 0)):
            out.append(("breeze pair", [f"{na}={va}", f"{nb}={vb}"], [(("prop", pa), bool(va)), (("prop", pb), bool(vb))]))
    return out


INVALID = [
    ("unknown name", ["no_such_setting=1"]), ("unknown name 2", ["powerstate=True"]), ("read-only", ["indoor_temperature=20"]),
    ("read-only 2", ["online=True"]), ("read-only 3", ["supports_eco=True"]), ("read-only 4", ["filter_alert=1"]),
    ("method", ["refresh=1"]), ("method 2", ["apply=1"]), ("private", ["_beep_on=True"]), ("private 2", ["_power_state=1"]),
    ("class attribute", ["FanSpeed=1"]), ("missing =", ["power_state"]), ("double =", ["power_state=True=False"]),
    ("bad enum name", ["operational_mode=warm"]), ("bad enum name 2", ["swing_mode=diagonal"]), ("enum value out of range", ["operational_mode=99"]),
    ("enum value out of range 2", ["swing_mode=7"]), ("enum value out of range 3", ["aux_mode=3"]),
    ("non-numeric number", ["target_temperature=abc"]), ("non-numeric number 2", ["target_humidity=high"]),
    ("list literal", ["target_temperature=[1]"]), ("nan", ["target_temperature=nan"]), ("inf", ["target_temperature=inf"]),
    ("-inf", ["target_temperature=-inf"]), ("Infinity", ["target_temperature=Infinity"]), ("nan humidity", ["target_humidity=nan"]),
    ("number with unit", ["target_temperature=21C"]), ("hex number", ["target_humidity=0x2g"]), ("bad bool", ["power_state=maybe"]), ("bad bool 2", ["eco=on"]),
    ("empty value", ["power_state="]), ("valid then invalid", ["power_state=True", "bogus=1"]), ("invalid then valid", ["bogus=1", "power_state=True"]),
    ("valid then read-only", ["target_temperature=20", "outdoor_temperature=5"]),
]


def bounds(tier):
    return {"valid_single_setting_lines": len(valid_cases()), "pairs": len(pair_cases()), "invalid": len(INVALID),
            "reported_states": len(REPORTED), "protocols": [2, 3]}


def shards(tier):
    n = 12
    out = [("valid", i, n) for i in range(n)]
    out += [("pairs", i, 4) for i in range(4)]
    out += [("caps", i, 4) for i in range(4)]
    out += [("invalid", 0, 1)]
    return out


def reported_state(rep_i, capabilities):
    # REPORTED[4] is a unit that advertises preset fan speeds only (CAP_PAGES) but reports speed 55: real units do contradict
    # their capability reports (the library itself notes devices that "claim no capability but return energy data")
    return dict(REPORTED[rep_i])


def cap_pages_for(capabilities):
    if capabilities == "partial":
        # a unit that advertises exactly one of the property-backed features (vertical swing angle)
        return [CAP_PAGES[0], [rd.cap_record(0x0009, 1)]]
    if capabilities == "nodisplay":
        # the same unit, except that its capability report does not mention display control (0x0224) at all
        return [[r for r in CAP_PAGES[0] if r[:2] != b"\x24\x02"], CAP_PAGES[1]]
    return CAP_PAGES


def run_cli(settings, rep_i, version=2, capabilities=False):
    w = World()
    w.adopt_asyncio_run()
    model = RefAC(reported_state(rep_i, capabilities), cap_pages=cap_pages_for(capabilities))
    token, key = filler("c20/t", 64), filler("c20/k", 32)
    dev = SimDevice(version=version, device_id=0 if version == 2 else 4242, ac=model, token=token, key=key)
    w.net.listen(IP, 6444, dev)
    argv = ["msmart-ng", "control"]
    if version == 3:
        argv += ["--token", token.hex(), "--key", key.hex(), "--id", "4242"]
    if capabilities:
        argv += ["--capabilities"]
    argv += [IP] + list(settings)
    old = sys.argv
    sys.argv = argv
    try:
        try:
            cli.main()
            code = ("returned", None)
        except SystemExit as e:
            code = ("exit", e.code if e.code is not None else 0)
        except BaseException as e:  # noqa: BLE001
            code = ("uncaught", type(e).__name__)
        return code, model, w.net, dev
    finally:
        sys.argv = old
        w.close()


def expected_state(rep_i, exps, breeze_control=False):
    base = RefAC(reported_state(rep_i, breeze_control))
    st = dict(base.state)
    props = {}
    beep = None
    breeze_mode, breeze_touched = 1, set()
    for target, val in exps:
        if target is None:
            continue
        if target == "aux":
            st["aux_heat"], st["indep_aux"] = val == 1, val == 2
        elif target == "display":
            st["display_on"] = val
        elif target == "beep":
            beep = val
        elif isinstance(target, tuple):
            pid = target[1]
            if pid == rd.P_IECO:
                props[pid] = bytes([0, 1, 1 if val else 0]) + bytes(10)
            elif pid in (rd.P_BREEZE_AWAY, rd.P_BREEZELESS, rd.P_BREEZE_CONTROL):
                # the three breeze settings are one mode: settings are applied in command-line order, switching one on selects
                # it, switching one off selects "off" (1 off, 2 away, 3 mild, 4 breezeless)
                on = {rd.P_BREEZE_AWAY: 2, rd.P_BREEZE_CONTROL: 3, rd.P_BREEZELESS: 4}[pid]
                breeze_mode = on if val else 1
                breeze_touched.add(pid)
            else:
                props[pid] = bytes([int(val)])
        else:
            st[target] = val
    if breeze_touched and breeze_control:
        props[rd.P_BREEZE_CONTROL] = bytes([breeze_mode])      # the unit advertises breeze control: one id carries the mode
    else:
        for pid in breeze_touched:                             # legacy ids, vendor encodings
            props[pid] = (bytes([2 if breeze_mode == 2 else 1]) if pid == rd.P_BREEZE_AWAY else
                          bytes([breeze_mode]) if pid == rd.P_BREEZE_CONTROL else bytes([1 if breeze_mode == 4 else 0]))
    return st, props, beep


def judge_valid(st: Stats, case, code, model, net, exps, rep_i):
    prob = None
    want, props, beep = expected_state(rep_i, exps, breeze_control=case.get("capabilities") in (True, "nodisplay"))
    if code != ("exit", 0):
        prob = f"exit status {code}"
    elif model.state != want:
        d = {k: (want[k], model.state[k]) for k in want if model.state[k] != want[k]}
        prob = f"device end state differs: {d}"
    else:
        for pid, val in props.items():
            if model.props.get(pid) != val:
                prob = f"property {pid:#06x} is {model.props.get(pid)} expected {val}"
        if beep is not None and (not model.controls or model.controls[-1]["beep"] != beep):
            prob = "beep flag not applied"
        if model.rejected:
            prob = f"device rejected a command: {model.rejected[0][1]}"
    if prob:
        sig = f"{case['label']}: " + prob.split(":")[0].split("(")[0][:60]
        toggled = any(t == "display" and v != reported_state(rep_i, False)["display_on"] for t, v in exps)
        rep_fan = reported_state(rep_i, False)["fan"]
        if (case.get("capabilities") and toggled and code == ("exit", 0) and rep_fan not in (20, 40, 60, 80, 100, 102)
                and not any(t == "fan" for t, _ in exps)
                and {k for k in want if model.state[k] != want[k]} == {"fan"} and model.state["fan"] == 102):
            sig = "--capabilities + display toggle: unspecified non-preset fan speed of a preset-only unit rewritten to AUTO"
        st.violation(sig, case, "documented interpretation", prob)
    return prob


def run_shard(shard, tier) -> Stats:
    kind, part, nparts = shard
    st = Stats()
    det = Determinism(first=2, every=299)
    if kind == "caps":
        # the same command lines with --capabilities: querying the capabilities must not change the meaning of the settings
        cases = valid_cases()[::5] + pair_cases()[::7]
        for i in range(part, len(cases), nparts):
            label, settings, exps = cases[i]
            for rep_i in (4, i % 4):
                case = {"label": label + " --capabilities", "settings": settings, "reported": rep_i, "version": 2, "capabilities": True}
                code, model, net, dev = run_cli(settings, rep_i, 2, capabilities=True)
                prob = judge_valid(st, case, code, model, net, exps, rep_i)
                st.ev((tuple(settings), rep_i, "caps"), "applied" if not prob else "wrong", True)
                if any(isinstance(t, tuple) for t, _ in exps):
                    # property-backed settings against a unit that advertises only one such feature: still sent as asked
                    case = {**case, "label": label + " --capabilities (unit advertises one property-backed feature only)", "capabilities": "partial"}
                    code, model, net, dev = run_cli(settings, rep_i, 2, capabilities="partial")
                    prob = judge_valid(st, case, code, model, net, exps, rep_i)
                    st.ev((tuple(settings), rep_i, "caps-partial"), "applied" if not prob else "wrong", True)
                if any(s_.lower().startswith("display_on") for s_ in settings):
                    case = {**case, "label": label + " --capabilities (unit does not advertise display control)", "capabilities": "nodisplay"}
                    code, model, net, dev = run_cli(settings, rep_i, 2, capabilities="nodisplay")
                    prob = judge_valid(st, case, code, model, net, exps, rep_i)
                    st.ev((tuple(settings), rep_i, "caps-nodisplay"), "applied" if not prob else "wrong", True)
    elif kind in ("valid", "pairs"):
        cases = valid_cases() if kind == "valid" else pair_cases()
        for i in range(part, len(cases), nparts):
            label, settings, exps = cases[i]
            reps = range(len(REPORTED)) if (kind == "valid" and (tier == "thorough" or i % 3 == 0)) else [i % len(REPORTED)]
            for rep_i in reps:
                for version in ((2, 3) if i % 5 == 0 else (2,)):
                    case = {"label": label, "settings": settings, "reported": rep_i, "version": version}
                    code, model, net, dev = run_cli(settings, rep_i, version)
                    if det.due():
                        c2, m2, _, _ = run_cli(settings, rep_i, version)
                        det.check((code, model.state, model.props), (c2, m2.state, m2.props), case)
                    prob = judge_valid(st, case, code, model, net, exps, rep_i)
                    st.ev((tuple(settings), rep_i, version), "applied" if not prob else "wrong", True,
                          sample=None if len(st.samples) else case)
    else:
        for label, settings in INVALID:
            for rep_i in (0, 1):
                for version in (2, 3):
                    case = {"label": label, "settings": settings, "reported": rep_i, "version": version}
                    code, model, net, dev = run_cli(settings, rep_i, version)
                    prob = None
                    if code[0] == "returned" or code == ("exit", 0):
                        prob = f"accepted (exit {code})"
                    elif net.connect_attempts or any(u.sent for u in net.udp):
                        prob = "something was sent to the device before rejecting"
                    if prob:
                        st.violation(f"invalid '{label}': {prob.split('(')[0]}", case, "non-zero exit, nothing sent", prob)
                    st.ev((tuple(settings), rep_i, version), f"rejected:{code[0]}" if not prob else "accepted", True)
    st.reruns += det.reruns
    return st


def replay(case):
    code, model, net, dev = run_cli(case["settings"], case["reported"], case.get("version", 2), case.get("capabilities", False))
    return {"exit": code, "device_state": model.state, "props": {hex(k): v.hex() for k, v in model.props.items()},
            "connects": net.connect_attempts}
