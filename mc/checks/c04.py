"""C04 - V3 stream reassembly is segmentation-independent."""
from __future__ import annotations

import asyncio
from itertools import combinations

from msmart.lan import LAN, _LanProtocolV3

from .. import refcodec as rc
from ..harness import Determinism, HarnessError, World, exc_class, filler
from ..refdevice import RefAC
from ..report import Stats
from ..simdev import SimDevice
from ..vloop import Conn, SimTcp

PROPERTY = "C04"
LEVEL = "model_checking"
RULE = ("schedule enumeration (E2): for each stream of 1..4 V3 packets (payload sizes from a boundary alphabet, payloads "
        "containing the marker bytes, marker-free garbage prefixes incl. ones ending in 0x83) every segmentation within the "
        "cut bound is fed to the real protocol object; after EVERY segment the packets readable without blocking are "
        "compared with a reference reassembler (a list): available exactly when the last byte arrived, once, in order, "
        "byte-identical. Streams <= 16 bytes: all 2^(n-1) segmentations. Wire seam: the same through an authenticated "
        "LAN.send with encrypted replies, checking the virtual instant at which send returns. Header sweep: every value of the pad/type byte x 4 magic "
        "bytes x 3 sizes (boundaries depend on marker and size field only). Marker-free garbage prefixes of 255..70000 bytes. Pauses of 0.5 s .. 25 h "
        "between the segments of a stream. "
        "state = (unframed remainder, packets delivered); transition = one segment fed")
ASSUMPTIONS = ["segments are delivered in order (TCP)", "protocol-seam packets use the handshake-response type so that read() "
               "returns the raw body for arbitrary payload bytes; the wire seam uses real encrypted responses"]
EXHAUSTIVE = True
IP, PORT = "10.0.0.4", 6444
SIZES = [0, 1, 2, 14, 15, 16, 17, 30, 48]


def bounds(tier):
    return {"cut_bound_protocol_seam": 3 if tier == "thorough" else 2, "cut_bound_wire_seam": 2 if tier == "thorough" else 1,
            "all_subsets_up_to_bytes": 20 if tier == "thorough" else 16, "payload_sizes": SIZES, "size_field_boundary_values": BIG_SIZES, "packets_per_stream": "1..4", "garbage_prefix": "0..6 bytes"}


def pkt(n: int, tag: str, special: int = 0) -> bytes:
    body = bytearray(filler(f"c04/{tag}", n))
    # keep fillers marker-free unless requested
    for i in range(len(body) - 1):
        if body[i] == 0x83 and body[i + 1] == 0x70:
            body[i + 1] = 0x71
    if special == 1 and n >= 2:          # marker inside the payload
        body[n // 2 - 1:n // 2 + 1] = b"\x83\x70"
    if special == 2 and n >= 1:          # payload ends in 0x83 (next packet starts 83 70)
        body[-1] = 0x83
    if special == 3 and n >= 6:          # a complete look-alike header inside the payload
        body[1:7] = b"\x83\x70\x00\x02\x20\x01"
    if special == 4 and n >= 2:          # payload begins with the marker
        body[0:2] = b"\x83\x70"
    if special == 5 and n >= 2:          # payload ends with the marker
        body[-2:] = b"\x83\x70"
    if special == 6 and n >= 6:          # a complete look-alike header at the very end of the payload
        body[-6:] = b"\x83\x70\x00\x01\x20\x01"
    return rc.v3_build_plain(rc.T_HANDSHAKE_RESP, 0x0102, bytes(body))


# size-field boundary values (the 2-byte big-endian size field, carries, byte boundaries)
BIG_SIZES = [2560, 2570, 2816, 3338, 247, 248, 249, 255, 256, 257, 503, 504, 505, 510, 511, 512, 513, 767, 768, 1016, 1023, 1024, 1272, 1279, 1280, 2047, 2048,
             4095, 4096, 16383, 32767, 32768, 65527]

GARBAGE = [b"", b"\x00", b"\x83", b"\x70\x83", b"\x00\x83", b"\x5a\x5a\x01", b"\xff\x70\x83\x00", b"\x83\x83\x83\x83\x83",
           b"\x70\x70\x83\x71\x00\x83"]


LONG_GARBAGE = [255, 256, 257, 258, 300, 512, 1000, 4096, 5000, 65535, 65536, 65544, 70000]


def streams(tier) -> list[tuple[str, bytes]]:
    out = []
    # single packets of every size, pairs over a sub-alphabet, specials, garbage prefixes
    for n in SIZES:
        out.append((f"1x{n}", pkt(n, f"a{n}")))
    for a in (0, 1, 15, 16, 30):
        for b in (0, 2, 17):
            out.append((f"2x{a},{b}", pkt(a, f"b{a}") + pkt(b, f"c{b}")))
    for sp in (1, 2, 3, 4):
        out.append((f"special{sp}", pkt(16, "s", sp) + pkt(14, "t", sp)))
    out.append(("3x", pkt(1, "d") + pkt(0, "e") + pkt(15, "f", 2)))
    out.append(("4x", pkt(2, "g", 2) + pkt(0, "h") + pkt(14, "i", 1) + pkt(1, "j")))
    for i, g in enumerate(GARBAGE[1:], 1):
        out.append((f"garbage{i}", g + pkt(2, "k", 2) + pkt(1, "l")))
        # garbage prefix + a packet whose LAST bytes look like a marker / header + more packets
        out.append((f"garbage{i}-tailmarker", g + pkt(4, "k5", 5) + pkt(1, "l5") + pkt(0, "m5")))
        out.append((f"garbage{i}-tailheader", g + pkt(8, "k6", 6) + pkt(2, "l6", 5) + pkt(0, "m6")))
    if tier == "thorough":
        out.append(("4x-long", pkt(17, "m", 3) + pkt(30, "n", 1) + pkt(0, "o") + pkt(16, "p", 2)))
        out.append(("2x48", pkt(48, "q", 3) + pkt(30, "r", 4)))
        for a in SIZES:
            for b in SIZES:
                if (a, b) not in [(x, y) for x in (0, 1, 15, 16, 30) for y in (0, 2, 17)]:
                    out.append((f"2x{a},{b}", pkt(a, f"u{a}") + pkt(b, f"v{b}", 2)))
    return out


def small_streams(tier="quick") -> list[tuple[str, bytes]]:
    out = []
    if tier == "thorough":
        # all 2^(n-1) segmentations for streams of up to 20 bytes as well
        out.append(("small1x10", pkt(10, "w10", 1)))
        out.append(("small1x12", pkt(12, "w12", 3)))
        out.append(("small2x0,2", pkt(0, "x2") + pkt(2, "y2", 2)))
        out.append(("small2x1,3", pkt(1, "x3", 2) + pkt(3, "y3", 4)))
        out.append(("small-g3+1x8", b"\x00\x83\x83" + pkt(8, "z8", 2)))
    for n in range(0, 9):
        out.append((f"small1x{n}", pkt(n, f"w{n}", 2 if n else 0)))
    out.append(("small2x0", pkt(0, "x") + pkt(0, "y")))
    out.append(("small-g1", b"\x83" + pkt(7, "z", 2)))
    out.append(("small-g2", b"\x00\x83\x70"[:2] + pkt(6, "z2", 4)))
    out.append(("small-g6", GARBAGE[8] + pkt(2, "z3")))
    return out


def shards(tier):
    out = []
    names = [s[0] for s in streams(tier)]
    for i in range(len(names)):
        out.append(("cuts", i, 0))
    nsmall = len(small_streams(tier))
    for i in range(nsmall):
        for part in range(2 if tier != "thorough" else 8):
            out.append(("all", i, part, 2 if tier != "thorough" else 8))
    for i in range(len(BIG_SIZES)):
        out.append(("big", i, 0))
    for lo in range(0, 640, 40):
        out.append(("sizesweep", lo, lo + 40))
    for lo in range(0, 256, 32):
        out.append(("hdrsweep", lo, lo + 32))
    for i in range(len(LONG_GARBAGE)):
        out.append(("longgarbage", i, 0))
    out.append(("gaps", 0, 0))
    nparts = 8 if tier == "thorough" else 2
    for k in (1, 2, 3):
        for part in range(nparts):
            out.append(("wire", k, part, nparts))
    return out


# ---------------------------------------------------------------- protocol seam
class _NullPeer:
    def on_connect(self, c): pass
    def on_data(self, c, d): pass
    def on_close(self, c): pass


def poll(proto) -> list[bytes]:
    out = []
    while True:
        c = proto.read(timeout=0)
        try:
            c.send(None)
        except StopIteration as e:
            out.append(e.value)
        except asyncio.QueueEmpty:
            return out
        else:
            c.close()
            raise HarnessError("read(timeout=0) suspended")


REJECTED = "rejected"


def poll_any(proto) -> list:
    """Like poll(), for packets of any type: a packet the protocol object rejects on reading still counts as one delivered."""
    from msmart.lan import ProtocolError
    out = []
    while True:
        c = proto.read(timeout=0)
        try:
            c.send(None)
        except StopIteration as e:
            out.append(e.value)
        except asyncio.QueueEmpty:
            return out
        except ProtocolError:
            out.append(REJECTED)
        else:
            c.close()
            raise HarnessError("read(timeout=0) suspended")


def feed(w: World, stream: bytes, cuts: tuple, st: Stats, case, expect_cache: dict, any_type: bool = False, gap: float = 0.0) -> bool:
    """Feed one segmentation; compare after every segment.  Returns True if it agreed everywhere.

    gap: seconds of (virtual) wall-clock and monotonic time that pass between two segments."""
    proto = _LanProtocolV3()
    conn = Conn(w.net, 0, IP, PORT, _NullPeer())
    conn.protocol = proto
    proto.connection_made(SimTcp(w.net, conn))
    bounds_ = (0,) + cuts + (len(stream),)
    delivered = 0
    for i in range(len(bounds_) - 1):
        end = bounds_[i + 1]
        if gap and i:
            w.loop.jump(gap)
        try:
            proto.data_received(stream[bounds_[i]:end])
        except Exception as e:  # noqa: BLE001 - the receive path must never raise, whatever the bytes
            st.violation(f"protocol seam: data_received raised {type(e).__name__}", {**case, "cuts": list(cuts)},
                         {"after_byte": end}, str(e)[:100], f"stream={stream[:400].hex()}")
            return False
        st.transitions += 1
        exp = expect_cache.get(end)
        if exp is None:
            pk, rest = rc.v3_split(stream[:end])
            # any_type: only a handshake-response typed packet with the right magic yields its body; every other packet is
            # delivered too, and may be rejected when read
            exp = expect_cache[end] = ([p[8:] if not any_type or (p[4] == 0x20 and p[5] & 0xF == 1) else None for p in pk], len(rest))
        want = exp[0][delivered:]
        got = poll_any(proto) if any_type else poll(proto)
        if any_type and len(got) == len(want):
            want = [g if (x is None and g == REJECTED) else x for g, x in zip(got, want)]
        st.state((case["stream"], exp[1], len(exp[0])))
        if got != want:
            kind = ("early" if len(got) > len(want) else "late/missing" if len(got) < len(want) else "corrupt")
            st.violation(f"protocol seam: {kind} delivery", {**case, "cuts": list(cuts)},
                         {"after_byte": end, "new_packets": [x.hex() if isinstance(x, bytes) else x for x in want]},
                         {"new_packets": [x.hex() if isinstance(x, bytes) else x for x in got]},
                         f"stream={stream.hex()}")
            return False
        delivered += len(got)
    return True


def run_cuts(st: Stats, name: str, stream: bytes, maxcuts: int):
    w = World()
    try:
        cache = {}
        L = len(stream)
        case = {"kind": "cuts", "stream": name}
        pos = range(1, L)
        for k in range(0, maxcuts + 1):
            for cuts in combinations(pos, k):
                ok = feed(w, stream, cuts, st, case, cache)
                st.ev((name, cuts), "agree" if ok else "differ", True,
                      sample=None if cuts != (3, 9) else {"stream": name, "hex": stream.hex(), "cuts": list(cuts)})
        # byte by byte
        ok = feed(w, stream, tuple(pos), st, case, cache)
        st.ev((name, "bytewise"), "agree" if ok else "differ", True)
    finally:
        w.close()


def run_all_subsets(st: Stats, name: str, stream: bytes, part: int, nparts: int = 2):
    w = World()
    try:
        cache = {}
        L = len(stream)
        case = {"kind": "all", "stream": name}
        for mask in range(part, 1 << (L - 1), nparts):
            cuts = tuple(i + 1 for i in range(L - 1) if mask >> i & 1)
            ok = feed(w, stream, cuts, st, case, cache)
            st.ev((name, mask), "agree" if ok else "differ", True)
    finally:
        w.close()


# ---------------------------------------------------------------- wire seam
def wire_exec(k: int, cuts: tuple, gap: float = 0.013):
    """Authenticated LAN.send; device answers with k encrypted replies cut at `cuts`, one segment every `gap` s."""
    w = World()
    token, key = filler("c04/tok", 64), filler("c04/key", 32)
    frames = []
    ac = RefAC()
    for i in range(k + 1):
        ac.state["temp"] = 17.0 + i
        ac.state["fan"] = 40 + i
        frames.append(ac.report(0x03, 10 + i))
    info = {}

    def script(req):
        if req.kind == "handshake":
            for p in req.responses:
                req.send(p)
            return
        if "t0" not in info:
            stream = b"".join(req.dev.wrap(req.conn, f) for f in frames[:k])
            info["stream"] = stream
            info["t0"] = w.now()
            b = (0,) + cuts + (len(stream),)
            info["times"] = []
            for i in range(len(b) - 1):
                t = gap * (i + 1)
                req.conn.deliver(stream[b[i]:b[i + 1]], t)
                info["times"].append((b[i + 1], w.now() + t))
        else:
            req.send(req.dev.wrap(req.conn, frames[k]))

    dev = SimDevice(version=3, token=token, key=key, device_id=77, script=script)
    w.net.listen(IP, PORT, dev)
    lan = LAN(IP, PORT, 77)
    cmd = bytes.fromhex("aa21ac8d000000000003418100ff03ff000200000000000000000000000003016971")

    async def drive():
        await lan.authenticate(token, key)
        r1 = await lan.send(cmd)
        t1 = w.now()
        await asyncio.sleep(gap * (len(cuts) + 3))
        r2 = await lan.send(cmd)
        return r1, t1, r2

    try:
        out = w.run(drive())
        return out, info, frames
    finally:
        w.close()


def wire_expect(info, frames, k):
    """Reference: send returns when the segment holding packet 1's last byte arrives, with all packets complete by then."""
    stream = info["stream"]
    pk, _ = rc.v3_split(stream)
    ends = []
    pos = 0
    for p in pk:
        pos += len(p)
        ends.append(pos)
    t_first = next(t for end, t in info["times"] if end >= ends[0])
    n_first = 0
    for end, t in info["times"]:
        if t <= t_first:
            n_first = sum(1 for e in ends if e <= end)
    return t_first, n_first


def run_wire(st: Stats, k: int, part: int, nparts: int, maxcuts: int):
    det = Determinism(first=2, every=293)
    base, info, frames = wire_exec(k, ())
    if "stream" not in info:
        st.violation("wire seam: no data exchange took place (authentication or first send failed)", {"kind": "wire", "packets": k, "cuts": []},
                     "frames", str(base)[:200])
        st.ev(("wire", k, "base"), exc_class(base), True)
        return
    L = len(info["stream"])
    idx = 0

    def gen():
        yield ()
        yield tuple(range(1, L))
        for c in range(1, maxcuts + 1):
            yield from combinations(range(1, L), c)
    for cuts in gen():
        idx += 1
        if idx % nparts != part:
            continue
        gap = 0.013 if len(cuts) < 50 else 0.0007
        out, info, frames = wire_exec(k, cuts, gap)
        case = {"kind": "wire", "packets": k, "cuts": list(cuts) if len(cuts) < 10 else "bytewise"}
        if det.due():
            o2, _, _ = wire_exec(k, cuts, gap)
            det.check(str(out), str(o2), case)
        st.transitions += len(cuts) + 1
        if out[0] != "ok" or "stream" not in info:
            st.violation(f"wire seam: send raised {exc_class(out)}", case, "frames", str(out[1])[:200])
            st.ev(("wire", k, cuts), exc_class(out), True)
            continue
        r1, t1, r2 = out[1]
        t_first, n_first = wire_expect(info, frames, k)
        prob = None
        if r1 + r2 != frames[:k + 1]:
            prob = "frames lost, duplicated, reordered or corrupted"
        elif abs(t1 - t_first) > 1e-9:
            prob = f"send returned at t={t1:.4f}, last byte of first packet arrived at t={t_first:.4f}"
        elif len(r1) != n_first:
            prob = f"send returned {len(r1)} frames, {n_first} were complete"
        if prob:
            st.violation("wire seam: " + prob.split(",")[0].split(" at t=")[0], case,
                         {"frames": [f.hex() for f in frames[:k + 1]], "t_first": t_first, "n_first": n_first},
                         {"r1": [f.hex() for f in r1], "t1": t1, "r2": [f.hex() for f in r2]})
        st.state(("wire", k, len(r1), round(t1 - info["t0"], 4)))
        st.ev(("wire", k, cuts), "agree" if not prob else "differ", True,
              sample=None if cuts != (5,) else {**case, "stream_len": L})
    st.reruns += det.reruns


def run_big(st: Stats, idx: int):
    """Packets whose size field takes boundary values: whole, every single cut near the end, a few 2-cut schedules."""
    n = BIG_SIZES[idx]
    w = World()
    try:
        for variant in (0, 1):
            stream = pkt(n, f"big{n}", 1 if variant else 0) + pkt(3, "after-big", 2) + (pkt(0, "after2") if variant else b"")
            name = f"big{n}/{variant}"
            case = {"kind": "big", "stream": name, "size": n}
            cache = {}
            L = len(stream)
            first = 8 + n
            cutsets = [()]
            near = sorted(set(range(max(1, first - 300), min(L, first + 12))) | set(range(1, 12)) | {first // 2, L - 1})
            cutsets += [(c,) for c in near]
            cutsets += [(a, b) for a in (5, 8, first - 257, first - 256, first - 255, first - 1) for b in (first, first + 1, first + 6, L - 1)
                        if 0 < a < b < L]
            for cuts in cutsets:
                ok = feed(w, stream, tuple(cuts), st, case, cache)
                st.ev((name, tuple(cuts)), "agree" if ok else "differ", True)
            if L <= 2200:
                ok = feed(w, stream, tuple(range(1, L)), st, case, cache)
                st.ev((name, "bytewise"), "agree" if ok else "differ", True)
    finally:
        w.close()


def run_sizesweep(st: Stats, lo: int, hi: int):
    """Every payload size lo..hi-1 (so every value of the low size byte): whole, three single cuts, byte by byte for small ones."""
    w = World()
    try:
        for n in range(lo, hi):
            stream = pkt(n, f"sw{n}") + pkt(1, "sw-next", 2)
            name = f"size{n}"
            case = {"kind": "sizesweep", "stream": name, "size": n}
            cache = {}
            L = len(stream)
            cutsets = [(), (3,), (7,), (8 + n - 1,), (8 + n,), (8 + n + 1,)]
            if n <= 40:
                cutsets.append(tuple(range(1, L)))
            for cuts in cutsets:
                cuts = tuple(c for c in cuts if 0 < c < L)
                ok = feed(w, stream, cuts, st, case, cache)
                st.ev((name, cuts), "agree" if ok else "differ", True)
    finally:
        w.close()


def run_longgarbage(st: Stats, idx: int):
    """Marker-free garbage prefixes far longer than a packet, in front of ordinary packets."""
    L = LONG_GARBAGE[idx]
    g = bytes(b if b not in (0x83,) else 0x84 for b in filler(f"c04/lg{L}", L))
    w = World()
    try:
        for tail_marker in (False, True):
            gg = g[:-1] + b"\x83" if tail_marker else g       # the garbage may end in the first marker byte
            stream = gg + pkt(5, "lg-a", 2) + pkt(1, "lg-b") + pkt(0, "lg-c")
            name = f"garbage{L}{'+83' if tail_marker else ''}"
            case = {"kind": "longgarbage", "stream": name, "garbage_len": L}
            cache = {}
            n = len(stream)
            for cuts in ((), (L - 1,), (L,), (L + 1,), (L + 7,), (256,), (257,), (L // 2, L + 3), (100, 200, L + 13), (n - 1,)):
                cuts = tuple(sorted(set(c for c in cuts if 0 < c < n)))
                ok = feed(w, stream, cuts, st, case, cache)
                st.ev((name, cuts), "agree" if ok else "differ", True)
    finally:
        w.close()


def run_gaps(st: Stats):
    """Segments separated by long pauses: reassembly depends on the byte stream, not on when its pieces arrive."""
    w = World()
    try:
        stream = pkt(20, "gp-a", 1) + pkt(7, "gp-b", 2) + pkt(33, "gp-c") + pkt(0, "gp-d")
        n = len(stream)
        cache = {}
        for gap in (0.5, 6.0, 61.0, 3600.0, 90000.0):
            for a in range(1, n, 3):
                for b in (None, a + 5, a + 31, n - 2):
                    cuts = tuple(sorted(set(c for c in (a, b) if c is not None and 0 < c < n)))
                    case = {"kind": "gaps", "stream": "gaps", "gap": gap}
                    ok = feed(w, stream, cuts, st, case, cache, gap=gap)
                    st.ev(("gaps", gap, cuts), "agree" if ok else "differ", True)
            ok = feed(w, stream, tuple(range(1, n)), st, {"kind": "gaps", "stream": "gaps", "gap": gap}, cache, gap=gap)
            st.ev(("gaps", gap, "bytewise"), "agree" if ok else "differ", True)
    finally:
        w.close()


def run_hdrsweep(st: Stats, lo: int, hi: int):
    """Every value of the pad/type byte x several magic bytes: packet boundaries depend on marker and size field only."""
    w = World()
    try:
        for v in range(lo, hi):
            for magic in (0x20, 0x00, 0xFF, 0x83):
                for n in (0, 5, 30):
                    first = bytearray(pkt(n, f"hs{n}"))
                    first[4], first[5] = magic, v
                    second = bytearray(pkt(2, "hs-next", 2))
                    second[5] = (v * 7 + 3) & 0xFF
                    stream = bytes(first) + bytes(second) + pkt(0, "hs-last")
                    name = f"hdr{v:02x}/{magic:02x}/{n}"
                    case = {"kind": "hdrsweep", "stream": name, "padtype": v, "magic": magic, "size": n}
                    cache = {}
                    L = len(stream)
                    for cuts in ((), (5,), (6,), (8 + n - 1,), (8 + n,), (8 + n + 2,), tuple(range(1, L)) if n <= 5 else (L - 1,)):
                        cuts = tuple(c for c in cuts if 0 < c < L)
                        ok = feed(w, stream, cuts, st, case, cache, any_type=True)
                        st.ev((name, cuts), "agree" if ok else "differ", True)
    finally:
        w.close()


def run_shard(shard, tier) -> Stats:
    st = Stats()
    kind = shard[0]
    if kind == "hdrsweep":
        run_hdrsweep(st, shard[1], shard[2])
        st.traces = st.evaluations
        return st
    if kind == "longgarbage":
        run_longgarbage(st, shard[1])
        st.traces = st.evaluations
        return st
    if kind == "gaps":
        run_gaps(st)
        st.traces = st.evaluations
        return st
    if kind == "sizesweep":
        run_sizesweep(st, shard[1], shard[2])
        st.traces = st.evaluations
        return st
    if kind == "big":
        run_big(st, shard[1])
        st.traces = st.evaluations
        return st
    if kind == "cuts":
        name, stream = streams(tier)[shard[1]]
        maxc = 3 if tier == "thorough" else 2
        if len(stream) > 130:
            maxc = min(maxc, 2)
        run_cuts(st, name, stream, maxc)
    elif kind == "all":
        name, stream = small_streams(tier)[shard[1]]
        run_all_subsets(st, name, stream, shard[2], shard[3])
    else:
        run_wire(st, shard[1], shard[2], shard[3], 2 if tier == "thorough" and shard[1] == 1 else 1)
    st.traces = st.evaluations
    return st


def replay(case):
    st = Stats()
    if case["kind"] == "wire":
        if isinstance(case["cuts"], list):
            cuts, gap = tuple(case["cuts"]), 0.013
        else:
            _, info, _ = wire_exec(case["packets"], ())
            cuts, gap = tuple(range(1, len(info["stream"]))), 0.0007
        out, info, frames = wire_exec(case["packets"], cuts, gap)
        return str(out)[:500]
    if case.get("kind") == "sizesweep":
        run_sizesweep(st, case["size"], case["size"] + 1)
        return sorted(st.viol_counts)
    if case.get("kind") == "big":
        run_big(st, BIG_SIZES.index(case["size"]))
        return sorted(st.viol_counts)
    allst = dict(streams("thorough") + small_streams("thorough"))
    w = World()
    try:
        ok = feed(w, allst[case["stream"]], tuple(case.get("cuts", ())), st, case, {})
    finally:
        w.close()
    return {"agree": ok, "violations": list(st.violations.values())}
