"""C17 - Discovery reports each replying device with exactly its advertised identity."""
from __future__ import annotations

from msmart.device import AirConditioner as AC
from msmart.discover import Discover

from .. import simdisc as sd
from ..harness import Determinism, World, filler
from ..refdevice import RefAC
from ..report import Stats
from ..simdev import SimDevice

PROPERTY = "C17"
LEVEL = "exploration"
RULE = ("bounded-exhaustive enumeration (E1) of well-formed discovery replies built by the reference codec: device ids (byte-boundary "
        "values and palindromes up to 2^48-1) x ports x serial numbers x names net_<tt>_<suffix> for all 256 appliance type bytes in "
        "lower and upper hex x reported IP equal / different x V2 / V3 wrapper x listening port 6445 / 20086; full sweep of every "
        "axis plus a pairwise product, 12 hosts per simulated broadcast; discover() and discover_single(); one variant with "
        "auto-connect against simulated V2 air conditioners; hosts answering spread over the whole discovery window; a subnet-directed broadcast "
        "target and a DNS name as discover_single target; the same broadcasts with the user's debug logging switched on; replies whose last byte is LF / CR / space / NUL / TAB. The responders only answer a probe that is a valid V2 envelope "
        "(length, MD5, decryptable) on the documented ports. Oracle: multiset of (source address, port, id, serial, name, type, "
        "version, class is AirConditioner iff type 0xAC). non-trivial = every host")
ASSUMPTIONS = ["reply layout as in the two captured vectors of the repository's tests (decoded by the reference codec as a cross-check)",
               "the 16 trailing bytes of a V3 discovery reply are not interpreted"]

IDS = [0, 1, 0xFF, 0x100, 0xFFFF, 0x10000, 0xFFFFFF, 0x1000000, 0xFFFFFFFF, 0x100000000, 0xFFFFFFFFFF, 0x10000000000, 2 ** 48 - 1,
       0x010203040506, 0x060504030201, 0x00FF00FF00FF, 0xFF00FF00FF00, 15393162840672, 147334558165565, 0x8370005A5A00]
PORTS = [1, 255, 256, 6444, 65535]
SERIALS = ["000000P0000000Q1F0C9D153F7B40000", "0" * 32, "ZZZZZZZZZZZZZZZZzzzzzzzzzzzzzzzz"]


def bounds(tier):
    b = {"ids": len(IDS), "ports": PORTS, "serials": len(SERIALS), "type_bytes": 256, "hex_case": 2, "name_lengths": "5..255", "versions": [2, 3],
         "listen_ports": [6445, 20086], "hosts_per_broadcast": 12, "hosts": len(all_hosts(tier))}
    if tier == "thorough":
        b.update({"ports": "every port 1..65535", "ids": f"{len(IDS)} boundary values + every single-bit id, its complement and every byte "
                  "position x {00,7F,80,FF} over 00.. / FF.. backgrounds", "full_product": "ids x ports x serials x version x listen port x "
                  "same/different reported IP x {AC, A1}", "type_bytes": "256 x hex case x version x same/different reported IP"})
    return b


import functools  # noqa: E402


@functools.lru_cache(maxsize=None)
def all_hosts(tier="quick"):
    """Full sweep of each axis + a pairwise-ish product; returns list of host descriptors.  The thorough tier adds every port
    1..65535, a bit/byte-walk over the 48-bit device id, all type bytes under both versions and the full product of the quick
    tier's per-axis alphabets (the quick tier only has their pairwise combination)."""
    out = []

    def h(idv, port, sn, tt, upper, same_ip, version, lport):
        name = f"net_{tt:02X}_" if upper else f"net_{tt:02x}_"
        name += "F7B4" if upper else "63ba"
        out.append({"id": idv, "port": port, "sn": sn, "type": tt, "name": name, "same_ip": same_ip, "version": version, "lport": lport})

    for tt in range(256):
        for upper in (False, True):
            h(IDS[tt % len(IDS)], PORTS[tt % len(PORTS)], SERIALS[tt % 3], tt, upper, tt % 2 == 0, 2 + (tt + upper) % 2, 6445 if tt % 3 else 20086)
    for i, idv in enumerate(IDS):
        for j, port in enumerate(PORTS):
            for version in (2, 3):
                for lport in (6445, 20086):
                    for same in (True, False):
                        h(idv, port, SERIALS[(i + j) % 3], 0xAC if (i + j) % 4 else 0xA1, j % 2 == 0, same, version, lport)
    # name lengths up to the one-byte length field's maximum (suffix grows; type field stays at position 1)
    for n in (5, 6, 11, 31, 32, 33, 34, 48, 64, 100, 128, 200, 254, 255):
        for version in (2, 3):
            for tt in (0xAC, 0xB8):
                suffix = ("Z9_" * 90)[:n - 7]
                out.append({"id": IDS[(n + tt) % len(IDS)], "port": 6444, "sn": SERIALS[n % 3], "type": tt,
                            "name": f"net_{tt:02x}_{suffix}"[:n] if n >= 7 else f"n_{tt:02x}_"[:n + 1], "same_ip": True,
                            "version": version, "lport": 6445})
    for sn in SERIALS:
        for same in (True, False):
            for version in (2, 3):
                for lport in (6445, 20086):
                    h(IDS[12], 6444, sn, 0xAC, False, same, version, lport)
    if tier != "thorough":
        return out
    for port in range(1, 65536):
        h(IDS[port % len(IDS)], port, SERIALS[port % 3], 0xAC if port % 5 else 0xDB, port % 2 == 0, port % 3 == 0, 2 + port % 2, 6445 if port % 7 else 20086)
    walk = set()
    for bit in range(48):
        walk.add(1 << bit)
        walk.add((2 ** 48 - 1) ^ (1 << bit))
    for pos in range(6):
        for v in (0x00, 0x7F, 0x80, 0xFF):
            for bg in (0x000000000000, 0xFFFFFFFFFFFF, 0x112233445566):
                walk.add((bg & ~(0xFF << (8 * pos))) | (v << (8 * pos)))
    for k, idv in enumerate(sorted(walk)):
        for version in (2, 3):
            h(idv, PORTS[k % len(PORTS)], SERIALS[k % 3], 0xAC, k % 2 == 0, k % 3 != 0, version, 6445 if (k + version) % 2 else 20086)
    for tt in range(256):
        for upper in (False, True):
            for version in (2, 3):
                for same in (True, False):
                    h(IDS[(tt + 7) % len(IDS)], PORTS[(tt + 1) % len(PORTS)], SERIALS[(tt + 1) % 3], tt, upper, same, version, 6445)
    for idv in IDS:
        for port in PORTS:
            for sn in SERIALS:
                for version in (2, 3):
                    for lport in (6445, 20086):
                        for same in (True, False):
                            for tt in (0xAC, 0xA1):
                                h(idv, port, sn, tt, False, same, version, lport)
    return out


def lastbyte_hosts():
    """Well-formed replies whose LAST byte (part of the trailing digest nobody interprets) is a text-like value: found by
    varying the serial number until the digest ends in the wanted byte."""
    out = []
    for version in (2, 3):
        for want in (0x0A, 0x0D, 0x20, 0x00, 0x09):
            for n in range(20000):
                sn = f"{n:032d}"
                dg = sd.reply(version, 0x0102030405 + want, "10.9.9.9", 6444, sn, "net_ac_0A0D")
                if dg[-1] == want:
                    out.append({"id": 0x0102030405 + want, "port": 6444, "sn": sn, "type": 0xAC, "name": "net_ac_0A0D", "same_ip": False,
                                "version": version, "lport": 6445, "datagram": dg})
                    break
    return out


def shards(tier):
    n = len(all_hosts(tier))
    per = 12
    groups = list(range(0, n, per))
    out = [("broadcast", g) for g in groups]
    out += [("single", g) for g in groups[::6]]
    out += [("autoconnect", g) for g in groups[::8]]
    out += [("late", g) for g in groups[::5]]
    out += [("directed", g) for g in groups[::7]]
    out += [("hostname", g) for g in groups[::9]]
    out += [("lastbyte", 0)]
    # the same broadcasts with the library's debug logging switched on by the user (msmart-ng --debug)
    out += [("debuglog", g) for g in groups[::4]]
    out += [("debuglog-single", g) for g in groups[::16]]
    return out


def run_group(mode: str, descs: list[dict]):
    w = World()
    hosts = []
    for k, d in enumerate(descs):
        ip = f"10.1.{k // 200}.{k % 200 + 10}"
        d["ip"] = ip
        rep_ip = ip if d["same_ip"] else f"192.168.77.{k + 1}"
        # "late": the hosts answer spread over the whole discovery window (the slowest a little before it closes)
        # (with quiet periods of more than 2 s in between)
        delay = [0.0, 0.2, 2.6, 2.7, 4.7, 4.8][k % 6] if mode == "late" else 0.0
        hosts.append(sd.Host(ip, d.get("datagram") or sd.reply(d["version"], d["id"], rep_ip, d["port"], d["sn"], d["name"]), listen_port=d["lport"],
                             delay=delay, hostname=f"ac-{k}.home.lan" if mode == "hostname" else None))
    pop = sd.Population(hosts)
    w.net.udp_responder = pop
    for h_ in hosts:
        if h_.hostname:
            w.net.dns[h_.hostname] = h_.ip
    if mode == "autoconnect":
        for d in descs:
            if d["version"] == 2:
                w.net.listen(d["ip"], d["port"], SimDevice(version=2, device_id=d["id"], ac=RefAC({"temp": 21.0})))

    async def drive():
        if mode in ("single", "debuglog-single"):
            r = await Discover.discover_single(descs[0]["ip"], auto_connect=False)
            return [r] if r is not None else []
        if mode == "hostname":
            # the documented "hostname or IP" form: the name resolves to the device, replies come from its address
            r = await Discover.discover_single("ac-0.home.lan", auto_connect=False)
            return [r] if r is not None else []
        if mode == "directed":
            return await Discover.discover(target="10.1.0.255", auto_connect=False)
        return await Discover.discover(auto_connect=(mode == "autoconnect"))

    try:
        if mode.startswith("debuglog"):
            from ..harness import debug_logging
            with debug_logging():
                out = w.run(drive())
        else:
            out = w.run(drive())
        probes = [(a, len(d)) for _, d, a in w.net.udp[0].sent] if w.net.udp else []
        return out, pop, probes
    finally:
        w.close()


def ident(dev):
    return (dev.ip, dev.port, dev.id, dev.sn, dev.name, int(dev.type), dev.version, type(dev).__name__)


def run_shard(shard, tier) -> Stats:
    mode, g = shard
    st = Stats()
    descs = [dict(d) for d in all_hosts(tier)[g:g + 12]]
    if mode == "lastbyte":
        descs = lastbyte_hosts()
    if mode in ("single", "hostname", "debuglog-single"):
        descs = descs[:3]
    if mode == "autoconnect":
        descs = [d for d in descs if d["version"] == 2] or descs[:1]
    out, pop, probes = run_group(mode, descs)
    case = {"mode": mode, "group": g, "hosts": descs}
    if out[0] != "ok":
        st.violation(f"{mode}: discovery raised {type(out[1]).__name__}", case, "list of devices", str(out[1])[:200])
        st.ev((mode, g), "raised", True)
        return st
    got = sorted(ident(d) for d in out[1])
    expect_descs = descs[:1] if mode in ("single", "hostname", "debuglog-single") else descs
    want = sorted((d["ip"], d["port"], d["id"], d["sn"], d["name"], d["type"], d["version"],
                   "AirConditioner" if d["type"] == 0xAC else "Device") for d in expect_descs)
    # hosts only answer a probe that is a valid discovery request on their port, so an unusable probe shows up as missing
    # devices below; extra datagrams or extra ports are not a violation
    st.extra["probes_rejected_by_devices"] += pop.bad_probes
    if got != want:
        missing = [x for x in want if x not in got]
        extra = [x for x in got if x not in want]
        fields = ["ip", "port", "id", "sn", "name", "type", "version", "class"]
        which = set()
        for m in missing:
            cand = [e for e in extra if e[0] == m[0]]
            if cand:
                which |= {fields[i] for i in range(8) if cand[0][i] != m[i]}
            else:
                which.add("absent")
        st.violation(f"{mode}: identity differs in {','.join(sorted(which)) or 'multiplicity'}", case,
                     {"missing": missing[:3]}, {"unexpected": extra[:3]})
    if mode == "autoconnect":
        for d in out[1]:
            if isinstance(d, AC) and not d.online:
                st.violation("autoconnect: discovered V2 air conditioner not refreshed", case, "online", "offline")
    for d in expect_descs:
        ok = any(x[0] == d["ip"] for x in got) and got == want
        st.ev((mode, d["ip"], d["id"], d["port"], d["name"], d["version"], d["lport"], d["sn"], d["same_ip"]), "exact" if ok else "wrong", True,
              sample=None if len(st.samples) else {**d, "mode": mode})
    return st


def replay(case):
    out, pop, probes = run_group(case["mode"], [dict(d) for d in case["hosts"]])
    return {"outcome": str(out[0]), "devices": sorted(ident(d) for d in out[1]) if out[0] == "ok" else str(out[1])[:200],
            "bad_probes": pop.bad_probes}
