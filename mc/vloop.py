"""Virtual-time asyncio event loop with an in-memory network.

Everything the library does with the outside world goes through the loop:
`create_connection`, `create_datagram_endpoint`, timers.  All of it is served
from memory, deterministically, and the clock only moves when the loop has
nothing ready (it then jumps to the next timer).
"""
from __future__ import annotations

import asyncio
import heapq
from asyncio import events
from typing import Any, Callable, Optional


class Deadlock(Exception):
    """The driver is pending, nothing is ready and no timer is scheduled."""


class HarnessError(Exception):
    """The harness (not the library) misbehaved: non-determinism, bad replay."""


class _Selector:
    def __init__(self, loop: "VLoop") -> None:
        self._loop = loop

    def select(self, timeout):
        loop = self._loop
        if timeout is None:
            raise Deadlock("nothing ready and nothing scheduled")
        if timeout > 0:
            if loop._scheduled:
                when = loop._scheduled[0]._when
                if when > loop._vtime:
                    loop._vtime = when
            else:
                loop._vtime += timeout
        return []

    def close(self):
        pass


class VLoop(asyncio.BaseEventLoop):
    """Event loop whose clock is virtual and whose I/O is simulated."""

    def __init__(self, net: Optional["SimNet"] = None) -> None:
        super().__init__()
        self._vtime = 0.0
        self._clock_resolution = 1e-9
        self._selector = _Selector(self)
        self.net = net if net is not None else SimNet()
        self.net.loop = self
        self.exceptions: list[Any] = []
        self.set_exception_handler(self._record_exception)

    # --- clock ---------------------------------------------------------
    def time(self) -> float:
        return self._vtime

    def jump(self, delta: float) -> None:
        """Clock jump: the wall clock moves, pending timers become due."""
        self._vtime += delta

    def _record_exception(self, loop, context) -> None:
        self.exceptions.append(context)

    # --- BaseEventLoop plumbing --------------------------------------
    trace_instants = None   # set to a list to record every distinct instant at which callbacks ran

    def _run_once(self):
        super()._run_once()
        ti = self.trace_instants
        if ti is not None and (not ti or ti[-1] != self._vtime):
            ti.append(self._vtime)

    def _process_events(self, event_list) -> None:
        pass

    def _write_to_self(self) -> None:
        pass

    # --- simulated I/O -------------------------------------------------
    async def create_connection(self, protocol_factory, host=None, port=None, **kwargs):
        return await self.net.connect(protocol_factory, host, port)

    async def create_datagram_endpoint(self, protocol_factory, local_addr=None, remote_addr=None, **kwargs):
        return await self.net.datagram_endpoint(protocol_factory, local_addr, remote_addr)

    async def getaddrinfo(self, host, port, *, family=0, type=0, proto=0, flags=0):
        """The simulation's resolver: numeric addresses and the names registered in SimNet.dns."""
        import socket as _s
        ip = self.net.resolve(host)
        if ip is None:
            raise _s.gaierror(-2, "Name or service not known")
        return [(_s.AF_INET, type or _s.SOCK_STREAM, proto, "", (ip, port or 0))]

    # --- driving -------------------------------------------------------
    def drain(self, horizon: float = 0.0) -> None:
        """Run until nothing is ready and no timer is due before now+horizon."""
        limit = self._vtime + horizon
        guard = 0
        events._set_running_loop(self)
        try:
            while True:
                guard += 1
                if guard > 100000:
                    raise HarnessError("drain does not terminate")
                # drop cancelled timers at the head
                while self._scheduled and self._scheduled[0]._cancelled:
                    h = heapq.heappop(self._scheduled)
                    h._scheduled = False
                if self._ready:
                    self._run_once()
                    continue
                if self._scheduled and self._scheduled[0]._when <= limit:
                    self._run_once()
                    continue
                break
        finally:
            events._set_running_loop(None)


class SimTcp(asyncio.Transport):
    """Client side of an in-memory TCP connection."""

    def __init__(self, net: "SimNet", conn: "Conn") -> None:
        super().__init__()
        self._net = net
        self._conn = conn

    def get_extra_info(self, name, default=None):
        if name == "peername":
            return (self._conn.host, self._conn.port)
        if name == "sockname":
            return ("192.0.2.1", 40000 + self._conn.index)
        return default

    def is_closing(self) -> bool:
        return self._conn.closing

    def write(self, data) -> None:
        self._conn.client_write(bytes(data))

    def writelines(self, list_of_data) -> None:
        self.write(b"".join(bytes(d) for d in list_of_data))

    def can_write_eof(self) -> bool:
        return False

    def close(self) -> None:
        self._conn.client_close()

    def abort(self) -> None:
        self._conn.client_close()

    def set_protocol(self, protocol) -> None:
        self._conn.protocol = protocol

    def get_protocol(self):
        return self._conn.protocol

    def pause_reading(self) -> None:
        pass

    def resume_reading(self) -> None:
        pass

    def is_reading(self) -> bool:
        return not self._conn.closing


class Conn:
    """One simulated TCP connection, with a full log."""

    def __init__(self, net: "SimNet", index: int, host: str, port: int, peer) -> None:
        self.net = net
        self.index = index
        self.host = host
        self.port = port
        self.peer = peer
        self.protocol = None
        self.transport = None
        self.closing = False          # client view: transport.is_closing()
        self.closed_by = None         # "client" | "peer"
        self.opened_at = net.loop.time()
        self.closed_at = None
        self.writes: list[tuple[float, bytes]] = []   # client -> peer
        self.delivered: list[tuple[float, bytes]] = []  # peer -> client actually delivered
        self.state: dict = {}          # peer's per-connection state

    # client -> peer
    def client_write(self, data: bytes) -> None:
        if self.closing:
            # Real transports drop (and eventually warn about) writes after close.
            self.net.log.append((self.net.loop.time(), "write-after-close", self.index, data))
            return
        if getattr(self, "half_closed", False):
            # written into a connection whose peer has closed: the bytes go nowhere, a reset comes back
            self.net.log.append((self.net.loop.time(), "write-after-peer-close", self.index, data))
            self.net.loop.call_later(0.001, self._reset_after_half_close)
            return
        self.writes.append((self.net.loop.time(), data))
        self.net.log.append((self.net.loop.time(), "tx", self.index, data))
        if self.peer is not None:
            self.peer.on_data(self, data)

    def _reset_after_half_close(self) -> None:
        if self.closing:
            return
        self.closing = True
        self.closed_at = self.net.loop.time()
        self.protocol.connection_lost(ConnectionResetError("connection reset by peer"))

    def client_close(self) -> None:
        if self.closing:
            return
        self.closing = True
        self.closed_by = "client"
        self.closed_at = self.net.loop.time()
        self.net.log.append((self.net.loop.time(), "client-close", self.index, b""))
        self.net.loop.call_soon(self._lost, None)
        if self.peer is not None:
            self.peer.on_close(self)

    def _lost(self, exc) -> None:
        if self.protocol is not None:
            self.protocol.connection_lost(exc)

    # peer -> client
    def deliver(self, data: bytes, delay: float):
        """Schedule `data` to arrive at the client `delay` seconds from now."""
        return self.net.loop.call_later(delay, self._deliver, data)

    def deliver_many(self, chunks, delay: float):
        """Several segments arriving back to back at the same instant, in order (separate data_received calls)."""
        def run():
            for c in chunks:
                self._deliver(c)
        return self.net.loop.call_later(delay, run)

    def deliver_at(self, data: bytes, when: float):
        return self.net.loop.call_at(when, self._deliver, data)

    def _deliver(self, data: bytes) -> None:
        if self.closing:
            return
        self.delivered.append((self.net.loop.time(), data))
        self.net.log.append((self.net.loop.time(), "rx", self.index, data))
        self.protocol.data_received(data)

    def peer_close(self, delay: float, exc: Optional[Exception] = None):
        return self.net.loop.call_later(delay, self._peer_close, exc)

    def _peer_close(self, exc) -> None:
        if self.closing:
            return
        self.closing = True
        self.closed_by = "peer"
        self.closed_at = self.net.loop.time()
        self.net.log.append((self.net.loop.time(), "peer-close", self.index, b""))
        if exc is None:
            # graceful close (FIN): as in asyncio's stream transports the protocol decides - a true return value keeps
            # the transport open (half-closed); the peer is gone, so the next write is answered with a reset
            if self.protocol.eof_received():
                self.closing = False
                self.half_closed = True
                return
        self.protocol.connection_lost(exc)


class _Sock:
    def __init__(self) -> None:
        self.opts = []

    def setsockopt(self, *args) -> None:
        self.opts.append(args)

    def getsockname(self):
        return ("0.0.0.0", 50000)


class SimUdp(asyncio.DatagramTransport):
    def __init__(self, net: "SimNet") -> None:
        super().__init__()
        self._net = net
        self.sock = _Sock()
        self.closing = False
        self.protocol = None
        self.sent: list[tuple[float, bytes, Any]] = []

    def get_extra_info(self, name, default=None):
        if name == "socket":
            return self.sock
        if name == "sockname":
            return self.sock.getsockname()
        return default

    def is_closing(self) -> bool:
        return self.closing

    def sendto(self, data, addr=None) -> None:
        if self.closing:
            return
        self.sent.append((self._net.loop.time(), bytes(data), addr))
        self._net.log.append((self._net.loop.time(), "udp-tx", addr, bytes(data)))
        if self._net.udp_responder is not None:
            self._net.udp_responder(self, bytes(data), addr)

    def close(self) -> None:
        if self.closing:
            return
        self.closing = True
        self._net.loop.call_soon(self.protocol.connection_lost, None)

    def abort(self) -> None:
        self.close()

    # harness side
    def deliver(self, data: bytes, addr, delay: float):
        return self._net.loop.call_later(delay, self._deliver, data, addr)

    def _deliver(self, data: bytes, addr) -> None:
        if self.closing:
            return
        self._net.log.append((self._net.loop.time(), "udp-rx", addr, data))
        self.protocol.datagram_received(data, addr)


class SimNet:
    """The simulated network: a table of TCP listeners and a UDP responder."""

    ACCEPT, REFUSE, HANG, UNREACHABLE, DNS = "accept", "refuse", "hang", "unreachable", "dns"

    def __init__(self) -> None:
        self.loop: VLoop = None  # set by VLoop
        self.listeners: dict[tuple[str, int], Any] = {}
        self.conns: list[Conn] = []
        self.connect_attempts: list[tuple[float, str, int, str]] = []
        self.log: list[tuple] = []
        self.udp: list[SimUdp] = []
        self.udp_responder: Optional[Callable] = None
        # decides accept/refuse/hang for a connect attempt; default accept if a listener exists
        self.dns: dict[str, str] = {}
        self.connect_policy: Optional[Callable[[str, int, int], str]] = None
        self.connect_latency = 0.004

    def listen(self, host: str, port: int, peer) -> None:
        self.listeners[(host, port)] = peer

    def resolve(self, host) -> Optional[str]:
        host = host.decode() if isinstance(host, bytes) else str(host)
        if host in getattr(self, "dns", {}):
            return self.dns[host]
        parts = host.split(".")
        if len(parts) == 4 and all(p.isdigit() and int(p) < 256 for p in parts):
            return host
        return None

    async def connect(self, protocol_factory, host, port):
        n = len(self.connect_attempts)
        host = self.resolve(host) or host
        peer = self.listeners.get((host, port))
        verdict = self.ACCEPT if peer is not None else self.REFUSE
        if self.connect_policy is not None:
            verdict = self.connect_policy(host, port, n) or verdict
        if verdict == self.ACCEPT and peer is None:
            verdict = self.REFUSE
        self.connect_attempts.append((self.loop.time(), host, port, verdict))
        self.log.append((self.loop.time(), "connect", (host, port), verdict.encode()))
        if verdict == self.REFUSE:
            await asyncio.sleep(self.connect_latency)
            raise ConnectionRefusedError(111, "Connect call failed", (host, port))
        if verdict == self.UNREACHABLE:
            await asyncio.sleep(self.connect_latency)
            raise OSError(113, "Connect call failed (No route to host)", (host, port))
        if verdict == self.DNS:
            import socket
            await asyncio.sleep(self.connect_latency)
            raise socket.gaierror(-2, "Name or service not known")
        if verdict == self.HANG:
            await self.loop.create_future()  # only cancellation ends this
            raise AssertionError("unreachable")
        await asyncio.sleep(self.connect_latency)
        conn = Conn(self, len(self.conns), host, port, peer)
        self.conns.append(conn)
        protocol = protocol_factory()
        transport = SimTcp(self, conn)
        conn.protocol = protocol
        conn.transport = transport
        protocol.connection_made(transport)
        peer.on_connect(conn)
        return transport, protocol

    async def datagram_endpoint(self, protocol_factory, local_addr, remote_addr):
        await asyncio.sleep(0)
        protocol = protocol_factory()
        transport = SimUdp(self)
        transport.protocol = protocol
        self.udp.append(transport)
        protocol.connection_made(transport)
        return transport, protocol


class VPolicy(asyncio.DefaultEventLoopPolicy):
    """Event-loop policy for code that calls asyncio.run() itself (the CLI)."""

    def __init__(self, make_loop: Callable[[], VLoop]) -> None:
        super().__init__()
        self._make_loop = make_loop
        self.loops: list[VLoop] = []

    def new_event_loop(self):
        loop = self._make_loop()
        self.loops.append(loop)
        return loop
