"""Counters, evidence files, violations, known findings, sharded execution."""
from __future__ import annotations

import hashlib
import json
import multiprocessing as mp
import os
import re
import sys
import time
import traceback
from collections import Counter
from typing import Any, Callable, Optional

VERIF = os.path.dirname(os.path.dirname(os.path.abspath(__file__)))
# experiments against a scratch copy of the repository (MSMART_REPO=<dir>, used by the seed / benign sweeps) must not overwrite
# the evidence of the real tree: they write to a scratch directory unless VERIF_EVIDENCE_DIR says otherwise
_SCRATCH = os.environ.get("MSMART_REPO", "/repo").rstrip("/") != "/repo"
EVIDENCE_DIR = os.environ.get("VERIF_EVIDENCE_DIR") or (os.path.join("/tmp", "verif-scratch-evidence") if _SCRATCH else os.path.join(VERIF, "evidence"))
REPLAY_DIR = os.path.join(EVIDENCE_DIR, "replays") if _SCRATCH else os.path.join(VERIF, "replays")
KNOWN = os.path.join(VERIF, "known_findings.json")


def h8(obj) -> int:
    return int.from_bytes(hashlib.blake2b(repr(obj).encode(), digest_size=8).digest(), "big")


def jsonable(o):
    if isinstance(o, (bytes, bytearray, memoryview)):
        return {"hex": bytes(o).hex()}
    if isinstance(o, dict):
        return {str(k): jsonable(v) for k, v in o.items()}
    if isinstance(o, (list, tuple)):
        return [jsonable(v) for v in o]
    if isinstance(o, (set, frozenset)):
        return sorted((jsonable(v) for v in o), key=repr)
    if isinstance(o, (str, int, float, bool)) or o is None:
        return o
    return repr(o)


def unjson(o):
    if isinstance(o, dict):
        if set(o) == {"hex"}:
            return bytes.fromhex(o["hex"])
        return {k: unjson(v) for k, v in o.items()}
    if isinstance(o, list):
        return [unjson(v) for v in o]
    return o


import weakref  # noqa: E402

_LIVE: "weakref.WeakSet" = weakref.WeakSet()      # Stats objects alive in this process (partial results of a stopped shard)


class Stats:
    """What one shard (or the whole run) covered.  Mergeable."""

    MAX_VIOL = 400
    MAX_SAMPLES = 6

    def __init__(self) -> None:
        self.evaluations = 0
        self.distinct: set[int] = set()
        self.nontrivial: set[int] = set()
        self.outcomes: Counter = Counter()
        self.states: set[int] = set()
        self.transitions = 0
        self.traces = 0
        self.violations: dict[str, dict] = {}   # one stored example per distinct signature
        self.viol_counts: Counter = Counter()
        self.violation_count = 0
        self.samples: list[Any] = []
        self.reruns = 0
        self.caps: list[str] = []
        self.extra: Counter = Counter()
        self.notes: dict = {}
        _LIVE.add(self)

    def ev(self, key, outcome: str, nontrivial: bool = True, sample=None) -> None:
        self.evaluations += 1
        k = h8(key)
        self.distinct.add(k)
        if nontrivial:
            self.nontrivial.add(k)
        self.outcomes[outcome] += 1
        if sample is not None and len(self.samples) < self.MAX_SAMPLES:
            self.samples.append(jsonable(sample))

    def state(self, key) -> bool:
        k = h8(key)
        if k in self.states:
            return False
        self.states.add(k)
        return True

    def violation(self, signature: str, case, expected, observed, detail: str = "") -> None:
        self.violation_count += 1
        self.viol_counts[signature] += 1
        if signature not in self.violations and len(self.violations) < self.MAX_VIOL:
            self.violations[signature] = {"signature": signature, "case": jsonable(case),
                                          "expected": jsonable(expected), "observed": jsonable(observed),
                                          "detail": detail}

    def merge(self, o: "Stats") -> None:
        self.evaluations += o.evaluations
        self.distinct |= o.distinct
        self.nontrivial |= o.nontrivial
        self.outcomes.update(o.outcomes)
        self.states |= o.states
        self.transitions += o.transitions
        self.traces += o.traces
        self.violation_count += o.violation_count
        self.viol_counts.update(o.viol_counts)
        for sig, v in o.violations.items():
            if sig not in self.violations and len(self.violations) < self.MAX_VIOL:
                self.violations[sig] = v
        for s in o.samples:
            if len(self.samples) < self.MAX_SAMPLES:
                self.samples.append(s)
        self.reruns += o.reruns
        for c in o.caps:
            if c not in self.caps:
                self.caps.append(c)
        self.extra.update(o.extra)
        for k, v in o.notes.items():
            self.notes.setdefault(k, v)


# ---------------------------------------------------------------- known findings
def load_known() -> list[dict]:
    if not os.path.exists(KNOWN):
        return []
    with open(KNOWN) as f:
        return json.load(f).get("findings", [])


def match_known(prop: str, signature: str, known: list[dict]) -> Optional[dict]:
    for k in known:
        if k.get("property") != prop or k.get("status") != "known":
            continue
        if re.fullmatch(k["signature"], signature):
            return k
    return None


# ---------------------------------------------------------------- sharded run
# (Stats objects alive in this process: defined next to class Stats)

# a shard that runs this much longer than any shard does on the unchanged tree is stopped (its partial results are kept)
SHARD_BUDGET = {"quick": float(os.environ.get("VERIF_SHARD_BUDGET_QUICK", "240")),
                "thorough": float(os.environ.get("VERIF_SHARD_BUDGET_THOROUGH", "14400"))}
WORKER_MEM = int(os.environ.get("VERIF_WORKER_MEM_GB", "4")) << 30


def _worker(args):
    modname, shard, tier = args
    _LIVE.clear()
    from . import harness as _h
    try:
        import importlib
        mod = importlib.import_module(modname)
        _h.arm_shard_budget(SHARD_BUDGET.get(tier, 900))
        try:
            st = mod.run_shard(shard, tier)
        finally:
            _h.arm_shard_budget(None)
        return ("ok", st)
    except _h.ShardBudgetExceeded:
        _h.arm_shard_budget(None)
        part = Stats()
        for s in list(_LIVE):
            if s is not part:
                part.merge(s)
        part.caps.append(f"shard {shard!r} stopped after {SHARD_BUDGET.get(tier, 900):.0f} s (partial results kept)")
        return ("timeout", part)
    except BaseException as e:  # noqa: BLE001
        return ("err", f"shard {shard!r}: {type(e).__name__}: {e}\n{traceback.format_exc()}")


def _init_worker():
    try:
        import resource
        resource.setrlimit(resource.RLIMIT_AS, (WORKER_MEM, WORKER_MEM))
    except Exception:  # noqa: BLE001
        pass


def run_check(mod, tier: str, seed: int, workers: Optional[int] = None) -> int:
    t0 = time.time()
    prop = mod.PROPERTY
    os.makedirs(EVIDENCE_DIR, exist_ok=True)
    shards = mod.shards(tier)
    workers = workers or int(os.environ.get("VERIF_WORKERS", "0")) or min(16, os.cpu_count() or 1)
    total = Stats()
    errors = []
    args = [(mod.__name__, s, tier) for s in shards]
    if workers <= 1 or len(shards) <= 1:
        results = map(_worker, args)
        pool = None
    else:
        ctx = mp.get_context("fork")
        pool = ctx.Pool(min(workers, len(shards)), initializer=_init_worker)
        results = pool.imap_unordered(_worker, args, chunksize=1)
    try:
        for kind, val in results:
            if kind == "err":
                errors.append(val)
            elif kind == "timeout":
                total.merge(val)
                errors.append(val.caps[-1])
            else:
                total.merge(val)
    finally:
        if pool is not None:
            pool.close()
            pool.join()
    wall = time.time() - t0
    if errors:
        # a crashing shard is a harness problem (exit 2) - unless other shards did find violations, which are then
        # still reported below (exit 1), with the crash noted
        sys.stdout.write("HARNESS-ERROR property=%s (%d shard(s))\n%s\n" % (prop, len(errors), "\n".join(errors[:3])))
        sys.stdout.flush()
        if not total.viol_counts:
            return 2

    known = load_known()
    new_violations = []
    known_hits: dict[str, dict] = {}
    for sig in sorted(total.viol_counts):
        k = match_known(prop, sig, known)
        if k is not None:
            known_hits.setdefault(k["id"], k)
        else:
            new_violations.append(total.violations.get(sig) or {
                "signature": sig, "case": None, "expected": None, "observed": None,
                "detail": "example not stored (more than %d distinct signatures)" % Stats.MAX_VIOL})

    level = mod.LEVEL
    cov = {
        "evaluations": total.evaluations,
        "distinct_nontrivial": len(total.nontrivial),
        "distinct_cases": len(total.distinct),
        "rule": mod.RULE,
        "samples": total.samples[:Stats.MAX_SAMPLES] or [],
        "outcome_classes": dict(sorted(total.outcomes.items())),
        "distinct_outcome_classes": len(total.outcomes),
        "determinism_reruns": total.reruns,
        "caps_hit": total.caps,
        "exhaustive": (not total.caps) and bool(getattr(mod, "EXHAUSTIVE", True)),
        "bounds": mod.bounds(tier) if hasattr(mod, "bounds") else {},
        "workers": workers,
        "shards": len(shards),
    }
    if level == "model_checking":
        cov["states"] = max(len(total.states), 1) if total.states or total.transitions else len(total.distinct)
        cov["transitions"] = total.transitions or total.evaluations
        cov["traces_validated_against_impl"] = total.traces or total.evaluations
        cov["explanation"] = ("exploration runs directly on the implementation: every enumerated schedule/history "
                              "is an execution of the real code, so every trace is validated by construction")
    for k, v in total.extra.items():
        cov[k] = v
    for k, v in total.notes.items():
        cov[k] = v
    ev = {
        "property_id": prop,
        "tier": tier,
        "seed": seed,
        "level": level,
        "coverage": cov,
        "assumptions": list(getattr(mod, "ASSUMPTIONS", [])),
        "wall_s": round(wall, 3),
        "violations": sum(total.viol_counts[v["signature"]] for v in new_violations),
        "known_findings_hit": sorted(known_hits),
        "harness_errors": len(errors),
    }
    os.makedirs(EVIDENCE_DIR, exist_ok=True)
    with open(os.path.join(EVIDENCE_DIR, f"{prop}.json"), "w") as f:
        json.dump(ev, f, indent=1, sort_keys=False)
        f.write("\n")

    for kid, k in sorted(known_hits.items()):
        print(f"KNOWN-FINDING: property={prop} {k['summary']}")
    if os.environ.get("VERIF_DEBUG"):
        for sig, n in sorted(total.viol_counts.items()):
            print(f"  [debug] {n:6d} x {sig}")
    rc = 0
    if new_violations:
        os.makedirs(REPLAY_DIR, exist_ok=True)
        v = new_violations[0]
        dg = hashlib.sha256(json.dumps(v, sort_keys=True).encode()).hexdigest()[:12]
        path = os.path.join(REPLAY_DIR, f"{prop}-{dg}.json")
        with open(path, "w") as f:
            json.dump({"property": prop, "tier": tier, "seed": seed, **v,
                       "other_violations": [x["signature"] for x in new_violations[1:10]],
                       "total_violations": total.violation_count}, f, indent=1)
        print(f"VIOLATION property={prop} replay={path}")
        print(f"  signature: {v['signature']}")
        print(f"  detail: {v['detail'][:600]}")
        print(f"  expected: {json.dumps(v['expected'])[:400]}")
        print(f"  observed: {json.dumps(v['observed'])[:400]}")
        rc = 1
    print(f"{prop} tier={tier} seed={seed} evaluations={total.evaluations} distinct={len(total.distinct)} "
          f"nontrivial={len(total.nontrivial)} states={len(total.states)} transitions={total.transitions} "
          f"outcomes={dict(total.outcomes.most_common(8))} reruns={total.reruns} caps={total.caps} "
          f"violations_new={sum(total.viol_counts[v['signature']] for v in new_violations)} "
          f"violations_matching_known_findings={total.violation_count - sum(total.viol_counts[v['signature']] for v in new_violations)} "
          f"wall={wall:.1f}s")
    if errors and rc == 0:
        return 2
    return rc
