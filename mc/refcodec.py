"""Independent reference implementation of the Midea LAN packet formats.

Written from the packet descriptions, not from the library.  Trusted base: the
single-block AES primitive of pycryptodome (ECB on exactly one block at a time;
chaining, padding and framing are done here) and hashlib.
"""
from __future__ import annotations

import hashlib
from typing import Optional

from Crypto.Cipher import AES as _AES

SIGN_KEY = b"xhdiwjnchekd4d512chdjx5d8e4c394D2D7S"
ENC_KEY = hashlib.md5(SIGN_KEY).digest()


class RefError(Exception):
    pass


# --- block primitives ----------------------------------------------------
_ENC: dict = {}
_DEC: dict = {}


def _enc_block(key: bytes, block: bytes) -> bytes:
    assert len(block) == 16
    c = _ENC.get(key)
    if c is None:
        if len(_ENC) > 256:
            _ENC.clear()
        c = _ENC[key] = _AES.new(key, _AES.MODE_ECB)
    return c.encrypt(block)


def _dec_block(key: bytes, block: bytes) -> bytes:
    assert len(block) == 16
    c = _DEC.get(key)
    if c is None:
        if len(_DEC) > 256:
            _DEC.clear()
        c = _DEC[key] = _AES.new(key, _AES.MODE_ECB)
    return c.decrypt(block)


def _xor(a: bytes, b: bytes) -> bytes:
    return bytes(x ^ y for x, y in zip(a, b))


def ecb_encrypt(key: bytes, data: bytes) -> bytes:
    if len(data) % 16:
        raise RefError("ecb: not block aligned")
    return b"".join(_enc_block(key, data[i:i + 16]) for i in range(0, len(data), 16))


def ecb_decrypt(key: bytes, data: bytes) -> bytes:
    if len(data) % 16:
        raise RefError("ecb: not block aligned")
    return b"".join(_dec_block(key, data[i:i + 16]) for i in range(0, len(data), 16))


def cbc_encrypt(key: bytes, data: bytes) -> bytes:
    """AES-CBC with an all-zero IV."""
    if len(data) % 16:
        raise RefError("cbc: not block aligned")
    prev = bytes(16)
    out = []
    for i in range(0, len(data), 16):
        prev = _enc_block(key, _xor(data[i:i + 16], prev))
        out.append(prev)
    return b"".join(out)


def cbc_decrypt(key: bytes, data: bytes) -> bytes:
    if len(data) % 16:
        raise RefError("cbc: not block aligned")
    prev = bytes(16)
    out = []
    for i in range(0, len(data), 16):
        blk = data[i:i + 16]
        out.append(_xor(_dec_block(key, blk), prev))
        prev = blk
    return b"".join(out)


def pkcs7_pad(data: bytes) -> bytes:
    n = 16 - len(data) % 16
    return data + bytes([n]) * n


def pkcs7_unpad(data: bytes) -> bytes:
    if not data or len(data) % 16:
        raise RefError("pkcs7: bad length")
    n = data[-1]
    if n < 1 or n > 16 or data[-n:] != bytes([n]) * n:
        raise RefError("pkcs7: bad padding")
    return data[:-n]


# --- V2 -------------------------------------------------------------------
def v2_sign(data: bytes) -> bytes:
    return hashlib.md5(data + SIGN_KEY).digest()


def v2_timestamp(year, month, day, hour, minute, second, centis) -> bytes:
    return bytes([centis, second, minute, hour, day, month, year % 100, year // 100])


def v2_build(frame: bytes, device_id: int = 0, *, timestamp: bytes = bytes(8),
             msg_type: bytes = b"\x01\x11", magic: bytes = b"\x20\x80",
             message_id: bytes = bytes(4), tail: bytes = bytes(12)) -> bytes:
    """Build a V2 packet the way a device does (response-style header allowed)."""
    enc = ecb_encrypt(ENC_KEY, pkcs7_pad(frame))
    total = 40 + len(enc) + 16
    hdr = b"\x5a\x5a" + msg_type + bytes([total & 0xFF, total >> 8]) + magic + message_id
    hdr += timestamp + device_id.to_bytes(8, "little") + tail
    assert len(hdr) == 40
    body = hdr + enc
    return body + v2_sign(body)


class V2Packet:
    __slots__ = ("raw", "length", "device_id", "timestamp", "frame", "msg_type", "magic")


def v2_parse(packet: bytes) -> V2Packet:
    """Parse and fully verify a V2 packet: marker, exact length, MD5, AES/PKCS7."""
    if len(packet) < 56:
        raise RefError(f"v2: too short ({len(packet)})")
    if packet[:2] != b"\x5a\x5a":
        raise RefError("v2: bad marker")
    length = packet[4] | (packet[5] << 8)
    if length != len(packet):
        raise RefError(f"v2: length field {length} != {len(packet)} bytes")
    if v2_sign(packet[:-16]) != packet[-16:]:
        raise RefError("v2: bad signature")
    p = V2Packet()
    p.raw = packet
    p.length = length
    p.msg_type = packet[2:4]
    p.magic = packet[6:8]
    p.timestamp = packet[12:20]
    p.device_id = int.from_bytes(packet[20:28], "little")
    p.frame = pkcs7_unpad(ecb_decrypt(ENC_KEY, packet[40:-16]))
    return p


# --- V3 -------------------------------------------------------------------
T_HANDSHAKE_REQ, T_HANDSHAKE_RESP, T_ENC_RESP, T_ENC_REQ, T_ERROR = 0x0, 0x1, 0x3, 0x6, 0xF


def v3_header(size: int, pad: int, ptype: int, magic: int = 0x20) -> bytes:
    return b"\x83\x70" + bytes([size >> 8, size & 0xFF, magic, (pad << 4) | ptype])


def v3_build_encrypted(session_key: bytes, counter: int, payload: bytes, ptype: int = T_ENC_RESP,
                       filler: Optional[bytes] = None) -> bytes:
    """Build an encrypted (type 3 or 6) packet."""
    rem = (len(payload) + 2) % 16
    pad = 0 if rem == 0 else 16 - rem
    if filler is None:
        filler = bytes((0xA5 + i) & 0xFF for i in range(pad))
    assert len(filler) == pad
    size = len(payload) + pad + 32
    hdr = v3_header(size, pad, ptype)
    plain = bytes([counter >> 8 & 0xFF, counter & 0xFF]) + payload + filler
    tag = hashlib.sha256(hdr + plain).digest()
    return hdr + cbc_encrypt(session_key, plain) + tag


def v3_build_plain(ptype: int, counter: int, body: bytes, *, size: Optional[int] = None, pad: int = 0,
                   magic: int = 0x20) -> bytes:
    """Handshake request/response or error packet: header + counter + raw body."""
    if size is None:
        size = len(body)
    return v3_header(size, pad, ptype, magic) + bytes([counter >> 8 & 0xFF, counter & 0xFF]) + body


class V3Packet:
    __slots__ = ("raw", "size", "magic", "pad", "ptype", "counter", "body", "payload", "tag_ok")


def v3_split(stream: bytes) -> tuple[list[bytes], bytes]:
    """Reference reassembler: (complete packets, unconsumed remainder).

    Bytes before a start marker are skipped.  A packet is `size field + 8` bytes.
    """
    out = []
    buf = stream
    while True:
        i = buf.find(b"\x83\x70")
        if i < 0:
            # keep a possible first marker byte at the very end
            return out, (buf[-1:] if buf.endswith(b"\x83") else b"")
        buf = buf[i:]
        if len(buf) < 6:
            return out, buf
        total = ((buf[2] << 8) | buf[3]) + 8
        if len(buf) < total:
            return out, buf
        out.append(buf[:total])
        buf = buf[total:]


def v3_parse(packet: bytes, session_key: Optional[bytes] = None) -> V3Packet:
    if len(packet) < 8:
        raise RefError("v3: too short")
    if packet[:2] != b"\x83\x70":
        raise RefError("v3: bad marker")
    p = V3Packet()
    p.raw = packet
    p.size = (packet[2] << 8) | packet[3]
    if p.size + 8 != len(packet):
        raise RefError(f"v3: size field {p.size}+8 != {len(packet)}")
    p.magic = packet[4]
    if p.magic != 0x20:
        raise RefError("v3: bad magic")
    p.pad = packet[5] >> 4
    p.ptype = packet[5] & 0xF
    p.payload = None
    p.tag_ok = None
    if p.ptype in (T_ENC_REQ, T_ENC_RESP):
        if session_key is None:
            raise RefError("v3: encrypted packet but no session key")
        cipher, tag = packet[6:-32], packet[-32:]
        if len(packet) < 6 + 16 + 32 or len(cipher) % 16:
            raise RefError("v3: ciphertext not block aligned")
        plain = cbc_decrypt(session_key, cipher)
        p.tag_ok = hashlib.sha256(packet[:6] + plain).digest() == tag
        if not p.tag_ok:
            raise RefError("v3: bad tag")
        p.counter = (plain[0] << 8) | plain[1]
        if p.pad > len(plain) - 2:
            raise RefError("v3: pad larger than payload")
        p.payload = plain[2:len(plain) - p.pad]
        if (len(p.payload) + 2 + p.pad) % 16 or p.size != len(p.payload) + p.pad + 32:
            raise RefError("v3: inconsistent size/pad")
        want = (16 - (len(p.payload) + 2) % 16) % 16
        if p.pad != want:
            raise RefError(f"v3: pad nibble {p.pad}, minimal padding is {want}")
        p.body = plain
    else:
        p.counter = (packet[6] << 8) | packet[7]
        p.body = packet[8:]
    return p


def handshake_reply_body(key: bytes, nonce: bytes) -> bytes:
    """64 bytes proving knowledge of `key`: AES-CBC_key(nonce) || SHA256(nonce)."""
    assert len(nonce) == 32 and len(key) == 32
    return cbc_encrypt(key, nonce) + hashlib.sha256(nonce).digest()


def session_key(key: bytes, nonce: bytes) -> bytes:
    return _xor(nonce, key)


def udpid(device_id_bytes: bytes) -> bytes:
    h = hashlib.sha256(device_id_bytes).digest()
    return _xor(h[:16], h[16:])


# --- AA frames ------------------------------------------------------------
def crc8(data: bytes) -> int:
    """Bitwise CRC-8/MAXIM (poly 0x31 reflected = 0x8C, init 0)."""
    crc = 0
    for b in data:
        crc ^= b
        for _ in range(8):
            crc = (crc >> 1) ^ 0x8C if crc & 1 else crc >> 1
    return crc


def checksum(data: bytes) -> int:
    return (-sum(data)) & 0xFF


def frame_build(body: bytes, frame_type: int, *, appliance: int = 0xAC, proto: int = 0,
                check: str = "crc", add_check: bool = True) -> bytes:
    """Build an AA frame around `body` (body excludes the trailing check byte if add_check)."""
    if add_check:
        body = body + bytes([crc8(body) if check == "crc" else checksum(body)])
    hdr = bytearray(10)
    hdr[0] = 0xAA
    hdr[1] = (len(body) + 10) & 0xFF
    hdr[2] = appliance
    hdr[8] = proto
    hdr[9] = frame_type
    f = bytes(hdr) + body
    return f + bytes([checksum(f[1:])])


class AAFrame:
    __slots__ = ("raw", "appliance", "frame_type", "body", "msg_id", "proto")


def frame_parse(frame: bytes, *, require_crc: bool = True) -> AAFrame:
    """Spec-conforming device-side parser of a command frame."""
    if len(frame) < 13:
        raise RefError(f"frame: too short ({len(frame)})")
    if frame[0] != 0xAA:
        raise RefError("frame: bad start byte")
    if frame[1] != len(frame) - 1:
        raise RefError(f"frame: length byte {frame[1]} != {len(frame) - 1}")
    if checksum(frame[1:-1]) != frame[-1]:
        raise RefError("frame: bad checksum")
    body = frame[10:-1]
    if require_crc and crc8(body[:-1]) != body[-1]:
        raise RefError("frame: bad CRC-8")
    f = AAFrame()
    f.raw = frame
    f.appliance = frame[2]
    f.proto = frame[8]
    f.frame_type = frame[9]
    f.body = body[:-1]       # body without CRC; last byte is the message id
    f.msg_id = body[-2]
    return f
