"""A boring reference air conditioner.

State is a dict; the bit layouts of the 0x40 control body and the 0xC0 report
body are transcribed from reference/T_0000_AC_00000Q14_2024013001.lua
(jsonToBin lines 3286-3445, binToModel lines 1664-1836), the property protocol
from lines 1855-2000 / 3449-3944.  DESIGN.md section 3 lists the places where
the vendor file is ambiguous and what was decided.
"""
from __future__ import annotations

from typing import Optional

from . import refcodec as rc

CONTROL, QUERY, REPORT = 0x02, 0x03, 0x04

# property ids
P_SWING_UD, P_SWING_LR, P_HUMIDITY, P_BREEZELESS, P_BUZZER = 0x0009, 0x000A, 0x0015, 0x0018, 0x001A
P_SELF_CLEAN, P_BREEZE_AWAY, P_BREEZE_CONTROL, P_RATE, P_FRESH_AIR, P_IECO, P_ANION = (
    0x0039, 0x0042, 0x0043, 0x0048, 0x004B, 0x00E3, 0x021E)

DEFAULT_STATE = {
    "power": False, "mode": 2, "temp": 24.0, "fan": 102, "swing": 0x0,
    "eco": False, "turbo": False, "sleep": False, "fahrenheit": False,
    "freeze": False, "follow_me": False, "purifier": False, "humidity": 40,
    "aux_heat": False, "indep_aux": False, "display_on": True,
}

STATE_FIELDS = tuple(DEFAULT_STATE)


def decode_setpoint(primary_byte: int, alt_byte: int) -> float:
    """Vendor setpoint (DESIGN 3): alt code != 0 -> alt+12 else primary+16; +0.5 with bit 4."""
    alt = alt_byte & 0x1F
    t = (alt + 12) if alt else ((primary_byte & 0x0F) + 16)
    return t + (0.5 if primary_byte & 0x10 else 0.0)


def decode_control(body: bytes) -> dict:
    """Decode a 0x40 control body (without msg id / CRC) with the vendor layout."""
    if len(body) < 23 or body[0] != 0x40:
        raise rc.RefError("control body too short / wrong id")
    s = {}
    s["power"] = bool(body[1] & 0x01)
    s["beep"] = bool(body[1] & 0x40)
    s["mode"] = (body[2] & 0xE0) >> 5
    s["temp"] = decode_setpoint(body[2], body[18])
    s["fan"] = body[3] & 0x7F
    s["swing"] = body[7] & 0x0F
    s["turbo_b8"] = bool(body[8] & 0x20)
    s["follow_me"] = bool(body[8] & 0x80)
    s["eco"] = bool(body[9] & 0x80)
    s["purifier"] = bool(body[9] & 0x20)
    s["aux_heat"] = bool(body[9] & 0x08)
    s["force_aux"] = bool(body[9] & 0x10)
    s["sleep"] = bool(body[10] & 0x01)
    s["turbo_b10"] = bool(body[10] & 0x02)
    s["turbo"] = s["turbo_b8"] or s["turbo_b10"]
    s["fahrenheit"] = bool(body[10] & 0x04)
    s["humidity"] = body[19] & 0x7F
    s["freeze"] = bool(body[21] & 0x80)
    s["indep_aux"] = bool(body[22] & 0x08)
    return s


def encode_report(st: dict, *, indoor: Optional[tuple[int, int]] = (0x62, 0), outdoor: Optional[tuple[int, int]] = (0x5A, 0),
                  filter_alert: bool = False, length: int = 24, raw_overrides: Optional[dict] = None) -> bytes:
    """Encode the 0xC0 body (without msg id/CRC) from device state.

    length counts body bytes before the trailing check byte (the library sees
    payload[0:length]).
    """
    b = bytearray(max(length, 16))
    b[0] = 0xC0
    b[1] = 0x01 if st["power"] else 0
    t = st["temp"]
    ti = int(t)
    half = 0x10 if (t - ti) > 0 else 0
    if 17 <= ti <= 30:
        b[2] = ((st["mode"] & 7) << 5) | half | ((ti - 16) & 0xF)
        alt = 0
    else:
        b[2] = ((st["mode"] & 7) << 5) | half
        alt = (ti - 12) & 0x1F
    b[3] = st["fan"] & 0x7F
    b[4] = 0x7F
    b[5] = 0x7F
    b[7] = 0x30 | (st["swing"] & 0xF)
    b[8] = (0x20 if st["turbo"] else 0) | (0x40 if st["indep_aux"] else 0) | (0x80 if st["follow_me"] else 0)
    b[9] = (0x10 if st["eco"] else 0) | (0x20 if st["purifier"] else 0) | (0x08 if st["aux_heat"] else 0)
    b[10] = (0x01 if st["sleep"] else 0) | (0x02 if st["turbo"] else 0) | (0x04 if st["fahrenheit"] else 0)
    b[11] = indoor[0] if indoor else 0xFF
    b[12] = outdoor[0] if outdoor else 0xFF
    b[13] = alt | (0x20 if filter_alert else 0)
    # 3-bit display field: 7 = off, 0..6 = on (brightness / auto levels); "display_level" is optional in the state dict
    b[14] = ((st.get("display_level", 0) & 7) % 7) << 4 if st["display_on"] else 0x70
    b[15] = ((outdoor[1] if outdoor else 0) << 4) | (indoor[1] if indoor else 0)
    if len(b) > 19:
        b[19] = st["humidity"] & 0x7F
    if len(b) > 21:
        b[21] = 0x80 if st["freeze"] else 0
    if raw_overrides:
        for i, v in raw_overrides.items():
            if i < len(b):
                b[i] = v
    return bytes(b[:length])


class RefAC:
    """Reference device: consumes command frames, returns response frames."""

    def __init__(self, state: Optional[dict] = None, *, capabilities: Optional[list[bytes]] = None,
                 cap_pages: Optional[list[list[bytes]]] = None, report_len: int = 24, check: str = "crc") -> None:
        self.state = dict(DEFAULT_STATE)
        if state:
            self.state.update(state)
        self.props: dict[int, bytes] = {}
        self.supported_props: Optional[set[int]] = None  # None = everything
        # capability records (already encoded id_lo id_hi size values..), pages
        if cap_pages is None:
            cap_pages = [capabilities or []]
        self.cap_pages = cap_pages
        self.report_len = report_len
        self.check = check
        self.indoor = (0x62, 0)
        self.outdoor = (0x5A, 0)
        self.filter_alert = False
        self.energy = bytes(16)   # bytes 4..19 of the group-4 body
        self.humidity_now = 0
        self.raw_overrides: Optional[dict] = None
        # logs
        self.frames: list[rc.AAFrame] = []       # every well-formed command received
        self.rejected: list[tuple[bytes, str]] = []
        self.controls: list[dict] = []            # decoded 0x40 bodies
        self.prop_sets: list[list[tuple[int, bytes]]] = []  # 0xB0 writes received
        self.prop_gets: list[list[int]] = []
        self.msg_ids: list[int] = []

    # --- building responses ------------------------------------------
    report_body = None   # if set: the exact 0xC0 payload (everything before the trailing check byte)

    def report(self, frame_type: int = QUERY, msg_id: int = 0) -> bytes:
        if self.report_body is not None:
            return rc.frame_build(self.report_body, frame_type, check=self.check)
        body = encode_report(self.state, indoor=self.indoor, outdoor=self.outdoor, filter_alert=self.filter_alert,
                             length=self.report_len, raw_overrides=self.raw_overrides)
        return rc.frame_build(body + bytes([msg_id]), frame_type, check=self.check)

    def _caps_frame(self, page: int, msg_id: int) -> bytes:
        recs = self.cap_pages[page] if page < len(self.cap_pages) else []
        more = 1 if page + 1 < len(self.cap_pages) else 0
        body = bytes([0xB5, len(recs)]) + b"".join(recs) + bytes([more, msg_id])
        return rc.frame_build(body, QUERY, check=self.check)

    def _prop_value_for_query(self, pid: int) -> bytes:
        if pid == P_IECO:
            v = self.props.get(pid, bytes(13))
            # stored as written: frame, number, switch... ; reported: number, switch, ...
            return bytes([v[1], v[2]]) + bytes(5)
        return self.props.get(pid, b"\x00")

    extra_in_replies = None      # optional (position, property id, value bytes) inserted into every 0xB1 reply

    def _props_frame(self, rid: int, ids: list[int], frame_type: int, msg_id: int) -> bytes:
        ids = list(ids)
        if self.extra_in_replies is not None and rid == 0xB1 and ids:
            pos, xid, xval = self.extra_in_replies
            ids.insert(min(pos, len(ids)), ("extra", xid, xval))
        body = bytearray([rid, len(ids)])
        for pid in ids:
            if isinstance(pid, tuple):
                body += bytes([pid[1] & 0xFF, pid[1] >> 8, 0x00, len(pid[2])]) + pid[2]
                continue
            ok = self.supported_props is None or pid in self.supported_props
            val = self._prop_value_for_query(pid) if ok else b"\x00"
            body += bytes([pid & 0xFF, pid >> 8, 0x00 if ok else 0x11, len(val)]) + val
        body += bytes([msg_id])
        return rc.frame_build(bytes(body), frame_type, check=self.check)

    # --- property store semantics -----------------------------------
    def _write_prop(self, pid: int, val: bytes) -> None:
        if self.supported_props is not None and pid not in self.supported_props:
            return
        if pid == P_BUZZER:
            return
        self.props[pid] = val
        # one louvre: legacy breeze flags are mutually exclusive on the device
        if pid == P_BREEZE_AWAY and val[:1] == b"\x02":
            if P_BREEZELESS in self.props:
                self.props[P_BREEZELESS] = b"\x00"
        if pid == P_BREEZELESS and val[:1] not in (b"\x00", b""):
            if P_BREEZE_AWAY in self.props:
                self.props[P_BREEZE_AWAY] = b"\x01"

    # --- the command handler ---------------------------------------
    def handle(self, frame: bytes) -> list[bytes]:
        try:
            f = rc.frame_parse(frame)
        except rc.RefError as e:
            self.rejected.append((frame, str(e)))
            return []
        if f.appliance != 0xAC:
            self.rejected.append((frame, "appliance type"))
            return []
        self.frames.append(f)
        self.msg_ids.append(f.msg_id)
        body = f.body
        cmd = body[0]
        if cmd == 0x40 and f.frame_type == CONTROL:
            try:
                c = decode_control(body[:-1])
            except rc.RefError as e:
                self.rejected.append((frame, str(e)))
                return []
            self.controls.append(c)
            for k in ("power", "mode", "temp", "fan", "swing", "eco", "turbo", "sleep", "fahrenheit", "freeze",
                      "follow_me", "purifier", "humidity", "aux_heat", "indep_aux"):
                self.state[k] = c[k]
            return [self.report(CONTROL, f.msg_id)]
        if cmd == 0x41 and f.frame_type == QUERY:
            b = body[:-1]
            if len(b) < 8:
                self.rejected.append((frame, "0x41 body too short"))
                return []
            if b[1] == 0x21 and b[2] == 0x01 and b[3] == 0x44:
                rb = bytes([0xC1, 0x21, 0x01, 0x44]) + self.energy + bytes([f.msg_id])
                return [rc.frame_build(rb, QUERY, check=self.check)]
            if b[1] == 0x21 and b[2] == 0x01 and b[3] == 0x45:
                rb = bytes([0xC1, 0x21, 0x01, 0x45, self.humidity_now]) + bytes(15) + bytes([f.msg_id])
                return [rc.frame_build(rb, QUERY, check=self.check)]
            if b[1] == 0x81 and b[4] == 0x03:
                return [self.report(QUERY, f.msg_id)]
            if (b[1] & 0x02) and b[4] == 0x02 and b[6] == 0x02:
                self.state["display_on"] = not self.state["display_on"]
                self.display_beep = bool(b[1] & 0x40)
                return [self.report(QUERY, f.msg_id)]
            self.rejected.append((frame, "unknown 0x41 request"))
            return []
        if cmd == 0xB5 and f.frame_type == QUERY:
            b = body[:-1]
            if b == bytes([0xB5, 0x01, 0x00]):
                return [self._caps_frame(0, f.msg_id)]
            if b == bytes([0xB5, 0x01, 0x01, 0x01]):
                return [self._caps_frame(1, f.msg_id)]
            self.rejected.append((frame, "unknown 0xB5 request"))
            return []
        if cmd == 0xB1 and f.frame_type == QUERY:
            b = body[:-1]
            n = b[1] if len(b) > 1 else 0
            if len(b) != 2 + 2 * n:
                self.rejected.append((frame, "0xB1 length/count mismatch"))
                return []
            ids = [b[2 + 2 * i] | (b[3 + 2 * i] << 8) for i in range(n)]
            self.prop_gets.append(ids)
            return [self._props_frame(0xB1, ids, QUERY, f.msg_id)]
        if cmd == 0xB0 and f.frame_type == CONTROL:
            b = body[:-1]
            n = b[1] if len(b) > 1 else 0
            cur = 2
            items = []
            for _ in range(n):
                if cur + 3 > len(b):
                    self.rejected.append((frame, "0xB0 truncated"))
                    return []
                pid = b[cur] | (b[cur + 1] << 8)
                size = b[cur + 2]
                val = b[cur + 3:cur + 3 + size]
                if len(val) != size:
                    self.rejected.append((frame, "0xB0 value truncated"))
                    return []
                items.append((pid, bytes(val)))
                cur += 3 + size
            if cur != len(b):
                self.rejected.append((frame, "0xB0 trailing bytes"))
                return []
            self.prop_sets.append(items)
            for pid, val in items:
                self._write_prop(pid, val)
            return [self._props_frame(0xB0, [p for p, _ in items], CONTROL, f.msg_id)]
        self.rejected.append((frame, f"unknown command 0x{cmd:02x} type {f.frame_type}"))
        return []


def cap_record(cid: int, *values: int) -> bytes:
    return bytes([cid & 0xFF, cid >> 8, len(values)]) + bytes(values)
