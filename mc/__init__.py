"""Model-checking substrate for mill1000/midea-msmart (see /verif/DESIGN.md).

Importing this package pins the library under test: `msmart` is imported from
$MSMART_REPO (default /repo), i.e. from the current working tree, never from a copy.
"""
import os
import sys

REPO = os.environ.get("MSMART_REPO", "/repo")
if not sys.path or sys.path[0] != REPO:
    sys.path.insert(0, REPO)
