"""Model-checking substrate for mill1000/midea-msmart (see /verif/DESIGN.md)."""
