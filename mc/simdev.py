"""Simulated LAN peers living on the SimNet.

SimDevice wraps a RefAC behind the V2 or V3 transport (reference codec).
Every decision about *how* to answer (when, in which segments, what else) is
delegated to a `script` callable so the explorers own it.
"""
from __future__ import annotations

from typing import Callable, Optional

from . import refcodec as rc
from .refdevice import RefAC

LATENCY = 0.01


class Request:
    """One request as seen by the device; handed to the script."""

    __slots__ = ("dev", "conn", "kind", "index", "conn_index", "responses", "frame", "ok", "raw")

    def __init__(self, dev, conn, kind, index, conn_index, responses, frame, ok, raw):
        self.dev = dev
        self.conn = conn
        self.kind = kind            # "handshake" | "data"
        self.index = index          # global request number on this device
        self.conn_index = conn_index  # request number on this connection
        self.responses = responses  # list of wire packets an honest device would send
        self.frame = frame          # decoded command frame (data) or token (handshake)
        self.ok = ok                # request was acceptable
        self.raw = raw

    def send(self, data: bytes, delay: float = LATENCY):
        return self.conn.deliver(data, delay)

    def send_all(self, delay: float = LATENCY) -> None:
        if self.responses:
            self.conn.deliver(b"".join(self.responses), delay)

    def close(self, delay: float = LATENCY):
        return self.conn.peer_close(delay)


def honest(req: Request) -> None:
    for p in req.responses:
        req.send(p)


class SimDevice:
    def __init__(self, *, version: int = 2, device_id: int = 0x0000_1122_3344_5566, ac: Optional[RefAC] = None,
                 token: Optional[bytes] = None, key: Optional[bytes] = None,
                 nonces: Optional[Callable[[int], bytes]] = None,
                 script: Callable[[Request], None] = honest) -> None:
        self.version = version
        self.device_id = device_id
        self.ac = ac if ac is not None else RefAC()
        self.token = token
        self.key = key
        self.script = script
        self._nonce_fn = nonces or (lambda n: bytes(((n * 37 + i * 11 + 5) & 0xFF) for i in range(32)))
        self.handshakes = 0
        self.requests = 0
        self.extra_creds: dict[bytes, bytes] = {}   # further token -> key registrations
        self.unknown_token = "error"     # or "silent", or "close" (error packet, then the device hangs up)
        self.lossy = None            # optional f(conn, ptype) -> True: packet is lost before the device sees it
        self.on_enc_request = None   # optional takeover of verified type-6 packets: f(conn, V3Packet, entry)
        # wire log: one entry per client packet
        self.rx: list[dict] = []
        self.conns = []

    # --- SimNet peer interface ---------------------------------------
    def on_connect(self, conn) -> None:
        self.conns.append(conn)
        conn.state.update(buf=b"", session_key=None, tx_counter=0, n=0, accepted=0)

    def on_close(self, conn) -> None:
        pass

    def on_data(self, conn, data: bytes) -> None:
        if self.version == 2:
            self._v2_packet(conn, data)
            return
        conn.state["buf"] += data
        packets, rest = rc.v3_split(conn.state["buf"])
        # garbage without a marker is dropped by the device as well
        conn.state["buf"] = rest
        for p in packets:
            self._v3_packet(conn, p)

    # --- helpers --------------------------------------------------------
    def wrap(self, conn, frame: bytes) -> bytes:
        """Wrap a response frame for the wire of this connection."""
        v2 = rc.v2_build(frame, self.device_id)
        if self.version == 2:
            return v2
        return self.wrap_v3(conn, v2)

    def wrap_v3(self, conn, payload: bytes) -> bytes:
        c = conn.state["tx_counter"]
        conn.state["tx_counter"] = (c + 1) & 0xFFFF
        return rc.v3_build_encrypted(conn.state["session_key"], c, payload, rc.T_ENC_RESP)

    def _dispatch(self, conn, kind, responses, frame, ok, raw) -> None:
        req = Request(self, conn, kind, self.requests, conn.state["n"], responses, frame, ok, raw)
        self.requests += 1
        conn.state["n"] += 1
        self.script(req)

    # --- V2 ---------------------------------------------------------------
    def _v2_packet(self, conn, data: bytes) -> None:
        now = conn.net.loop.time()
        entry = {"t": now, "conn": conn.index, "raw": data, "kind": "v2", "ok": False}
        self.rx.append(entry)
        try:
            p = rc.v2_parse(data)
        except rc.RefError as e:
            entry["error"] = str(e)
            self._dispatch(conn, "data", [], None, False, data)
            return
        entry.update(ok=True, frame=p.frame, device_id=p.device_id, timestamp=p.timestamp)
        frames = self.ac.handle(p.frame)
        self.last_resp_frames = frames
        entry["accepted"] = bool(frames) or not self.ac.rejected or self.ac.rejected[-1][0] != p.frame
        self._dispatch(conn, "data", [self.wrap(conn, f) for f in frames], p.frame, True, data)

    # --- V3 ---------------------------------------------------------------
    def _v3_packet(self, conn, data: bytes) -> None:
        now = conn.net.loop.time()
        st = conn.state
        entry = {"t": now, "conn": conn.index, "raw": data, "kind": "v3", "ok": False,
                 "ptype": data[5] & 0xF, "authenticated_before": st["session_key"] is not None}
        self.rx.append(entry)
        ptype = data[5] & 0xF
        if data[4] != 0x20:
            entry["error"] = "magic"
            return
        lost = self.lossy is not None and self.lossy(conn, ptype)
        if lost:
            # the packet never reaches the device's protocol engine: log what a wire tap would see, change nothing
            entry["lost"] = True
            try:
                p = rc.v3_parse(data, st["session_key"]) if ptype == rc.T_ENC_REQ else rc.v3_parse(data)
                entry["counter"] = p.counter
                if ptype == rc.T_HANDSHAKE_REQ:
                    entry["token"] = p.body
                    entry["error"] = "lost"
                else:
                    v2 = rc.v2_parse(p.payload)
                    entry.update(ok=True, frame=v2.frame, device_id=v2.device_id)
            except rc.RefError as e:
                entry["error"] = str(e)
            return
        if ptype == rc.T_HANDSHAKE_REQ:
            try:
                p = rc.v3_parse(data)
            except rc.RefError as e:
                entry["error"] = str(e)
                return
            entry["counter"] = p.counter
            entry["token"] = p.body
            key = self.key if (self.token is not None and p.body == self.token) else self.extra_creds.get(p.body)
            if key is not None:
                nonce = self._nonce_fn(self.handshakes)
                self.handshakes += 1
                entry.update(ok=True, nonce=nonce)
                st["session_key"] = rc.session_key(key, nonce)
                entry["key"] = key
                st["accepted"] += 1
                entry["session_key"] = st["session_key"]
                reply = rc.v3_build_plain(rc.T_HANDSHAKE_RESP, p.counter, rc.handshake_reply_body(key, nonce))
                self._dispatch(conn, "handshake", [reply], p.body, True, data)
            else:
                entry["error"] = "unknown token"
                # a device either rejects an unknown token with an error packet or simply does not answer
                reply = [] if self.unknown_token == "silent" else [rc.v3_build_plain(rc.T_ERROR, p.counter, b"")]
                self._dispatch(conn, "handshake", reply, p.body, False, data)
                if self.unknown_token == "close":
                    # the hang-up travels right behind the error packet (same instant, after it): the client sees a closed
                    # connection before it can act on the rejection.  A hang-up that lands in the middle of the client's NEXT
                    # handshake would be a device-side fault during an exchange, which is C08's subject, not C19's.
                    conn.peer_close(LATENCY)
            return
        if ptype == rc.T_ENC_REQ:
            if st["session_key"] is None:
                entry["error"] = "data before handshake"
                self._dispatch(conn, "data", [rc.v3_build_plain(rc.T_ERROR, 0, b"")], None, False, data)
                return
            try:
                p = rc.v3_parse(data, st["session_key"])
            except rc.RefError as e:
                entry["error"] = str(e)
                self._dispatch(conn, "data", [], None, False, data)
                return
            entry["counter"] = p.counter
            entry["pad"] = p.pad
            entry["payload"] = p.payload
            if self.on_enc_request is not None:
                entry["ok"] = True
                self.on_enc_request(conn, p, entry)
                return
            try:
                v2 = rc.v2_parse(p.payload)
            except rc.RefError as e:
                entry["error"] = "inner: " + str(e)
                self._dispatch(conn, "data", [], None, False, data)
                return
            entry.update(ok=True, frame=v2.frame, device_id=v2.device_id, timestamp=v2.timestamp)
            frames = self.ac.handle(v2.frame)
            self.last_resp_frames = frames
            self._dispatch(conn, "data", [self.wrap(conn, f) for f in frames], v2.frame, True, data)
            return
        entry["error"] = f"unexpected type {ptype}"


class ScriptPeer:
    """A peer that is nothing but callbacks (adversarial / codec checks)."""

    def __init__(self, on_data: Optional[Callable] = None, on_connect: Optional[Callable] = None) -> None:
        self._on_data = on_data
        self._on_connect = on_connect
        self.rx: list[tuple[float, int, bytes]] = []
        self.conns = []

    def on_connect(self, conn) -> None:
        self.conns.append(conn)
        if self._on_connect:
            self._on_connect(conn)

    def on_close(self, conn) -> None:
        pass

    def on_data(self, conn, data: bytes) -> None:
        self.rx.append((conn.net.loop.time(), conn.index, data))
        if self._on_data:
            self._on_data(conn, data, len(self.rx) - 1)
