"""Reference discovery replies and a scripted UDP responder population."""
from __future__ import annotations

import hashlib
from typing import Optional

from . import refcodec as rc

BROADCAST = "255.255.255.255"


def payload(ip: str, port: int, sn: str, name: str, trailer: bytes = b"\x00\x00\x87\x00\x02\x00") -> bytes:
    o = [int(x) for x in ip.split(".")]
    return bytes(o[::-1]) + port.to_bytes(4, "little") + sn.encode() + bytes([len(name.encode())]) + name.encode() + trailer


def v2_reply(device_id: int, body: bytes, *, encrypt: bool = True, raw_cipher: Optional[bytes] = None) -> bytes:
    enc = raw_cipher if raw_cipher is not None else rc.ecb_encrypt(rc.ENC_KEY, rc.pkcs7_pad(body))
    total = 40 + len(enc) + 16
    hdr = b"\x5a\x5a\x01\x11" + total.to_bytes(2, "little") + b"\x7a\x80" + bytes(4) + bytes([2, 55, 10, 9, 8, 7, 24, 20])
    hdr += device_id.to_bytes(6, "little") + bytes(2) + bytes([0, 0, 0, 0, 1, 0x80, 0, 0, 0, 0, 0, 0])
    pkt = hdr + enc
    return pkt + rc.v2_sign(pkt)


def v3_wrap(v2: bytes) -> bytes:
    size = len(v2) + 16
    head = b"\x83\x70" + size.to_bytes(2, "big") + b"\x20\x0f\x00\x00"
    return head + v2 + hashlib.md5(head + v2 + rc.SIGN_KEY).digest()


def reply(version: int, device_id: int, ip: str, port: int, sn: str, name: str) -> bytes:
    v2 = v2_reply(device_id, payload(ip, port, sn, name))
    return v2 if version == 2 else v3_wrap(v2)


def probe_ok(data: bytes) -> bool:
    """Would a device answer this probe?  Valid V2 envelope of its own length, right type, MD5 and decryptable body."""
    try:
        p = rc.v2_parse(data)
    except rc.RefError:
        return False
    return p.msg_type == b"\x01\x11" and data[6] == 0x92 and len(p.frame) > 0


class Host:
    def __init__(self, ip: str, datagram, *, listen_port: int = 6445, copies: int = 1, delay: float = 0.0,
                 hostname: Optional[str] = None, src_port: int = 6445) -> None:
        """datagram: bytes, or a list of byte strings used round-robin for the copies.
        delay: how much later than the others this host answers; hostname: a DNS name that resolves to this host."""
        self.ip = ip
        self.delay = delay
        self.hostname = hostname
        self.src_port = src_port      # UDP source port of the first copy (further copies: +1, +2)
        self.datagrams = list(datagram) if isinstance(datagram, (list, tuple)) else [datagram]
        self.datagram = self.datagrams[0]
        self.listen_port = listen_port
        self.copies = copies
        self.probes = 0
        self.answered = False


class Population:
    """UDP responder: each host answers the first acceptable probe reaching its port."""

    def __init__(self, hosts: list[Host], order: Optional[list[int]] = None, t0: float = 0.1, gap: float = 0.001) -> None:
        self.hosts = hosts
        self.order = order      # arrival order as a list of host indices (one entry per copy); None = host order
        self.t0, self.gap = t0, gap
        self.bad_probes = 0
        self.planned = False

    def __call__(self, transport, data: bytes, addr) -> None:
        tip, tport = addr
        if not probe_ok(data):
            self.bad_probes += 1
            return
        triggered = []
        for i, h in enumerate(self.hosts):
            # limited broadcast, unicast, the host's DNS name, or the directed broadcast address of its /24
            directed = tip.endswith(".255") and tip.rsplit(".", 1)[0] == h.ip.rsplit(".", 1)[0]
            if tport == h.listen_port and (tip in (BROADCAST, h.ip) or directed or (h.hostname is not None and tip == h.hostname)):
                h.probes += 1
                if not h.answered:
                    h.answered = True
                    triggered.append(i)
        if self.order is None:
            for i in triggered:
                h = self.hosts[i]
                for c in range(h.copies):
                    transport.deliver(h.datagrams[c % len(h.datagrams)], (h.ip, h.src_port + c), self.t0 + h.delay + (i * 4 + c) * self.gap)
            return
        # explicit global arrival order: deliver once every host that takes part has been triggered
        if not self.planned and all(h.answered for h in self.hosts):
            self.planned = True
            seen = {}
            for k, i in enumerate(self.order):
                c = seen.get(i, 0)
                seen[i] = c + 1
                h = self.hosts[i]
                transport.deliver(h.datagrams[c % len(h.datagrams)], (h.ip, h.src_port + c), self.t0 + k * self.gap)
