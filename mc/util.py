"""Helpers shared by the checks."""
from __future__ import annotations

from typing import Callable, Optional

from msmart.device import AirConditioner as AC

from . import alphabet as al
from .harness import World
from .refdevice import RefAC
from .simdev import SimDevice, honest

IP, PORT = "10.0.0.5", 6444


class Rig:
    """World + one simulated device + helpers to build clients."""

    def __init__(self, version: int = 2, *, ac: Optional[RefAC] = None, device_id: int = 0x0000_A1B2_C3D4_E5F6,
                 cred: int = 3, script: Callable = honest, epoch=None, message_id: int = 0,
                 token: Optional[bytes] = None, key: Optional[bytes] = None) -> None:
        self.w = World(epoch=epoch, message_id=message_id)
        self.version = version
        self.device_id = device_id
        if token is None:
            token, key = al.credentials()[cred % len(al.credentials())]
        self.token, self.key = token, key
        self.dev = SimDevice(version=version, device_id=device_id, ac=ac, token=token, key=key, script=script)
        self.w.net.listen(IP, PORT, self.dev)

    def client(self) -> AC:
        return AC(ip=IP, port=PORT, device_id=self.device_id)

    async def connect(self, ac: AC) -> None:
        """What a user does before using a device: authenticate on V3, nothing on V2."""
        if self.version == 3:
            await ac.authenticate(self.token, self.key)

    def run(self, coro, **kw):
        return self.w.run(coro, **kw)

    def close(self) -> None:
        self.w.close()


PUBLIC_STATE = (
    "power_state", "operational_mode", "target_temperature", "fan_speed", "swing_mode", "eco", "turbo", "sleep",
    "fahrenheit", "freeze_protection", "follow_me", "purifier", "target_humidity", "aux_mode", "display_on",
    "indoor_temperature", "outdoor_temperature", "filter_alert",
)


def public_state(ac: AC) -> dict:
    return {k: getattr(ac, k) for k in PUBLIC_STATE}


def norm(v):
    """Enum members compare by value; floats by value."""
    if isinstance(v, bool) or v is None:
        return v
    if isinstance(v, int):
        return int(v)
    return v


def client_view_of(dev_state: dict) -> dict:
    """What a correct client must report for a device in `dev_state` (reference device state dict)."""
    aux = 2 if dev_state["indep_aux"] else (1 if dev_state["aux_heat"] else 0)
    return {
        "power_state": dev_state["power"],
        "operational_mode": dev_state["mode"],
        "target_temperature": dev_state["temp"],
        "fan_speed": dev_state["fan"],
        "swing_mode": dev_state["swing"],
        "eco": dev_state["eco"], "turbo": dev_state["turbo"], "sleep": dev_state["sleep"],
        "fahrenheit": dev_state["fahrenheit"], "freeze_protection": dev_state["freeze"],
        "follow_me": dev_state["follow_me"], "purifier": dev_state["purifier"],
        "target_humidity": dev_state["humidity"], "aux_mode": aux, "display_on": dev_state["display_on"],
    }


def diff_view(expected: dict, ac: AC) -> dict:
    out = {}
    for k, v in expected.items():
        got = norm(getattr(ac, k))
        if got != v:
            out[k] = {"expected": v, "got": got}
    return out
