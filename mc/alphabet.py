"""Shared finite alphabets (DESIGN 4).  VERIF_SEED only changes filler bytes."""
from __future__ import annotations

from .harness import filler


def keys() -> list[bytes]:
    return [
        bytes(32),
        b"\xff" * 32,
        b"\x83\x70\x5a\x5a" * 8,
        bytes(range(32)),
        filler("key/a", 32),
        filler("key/b", 32),
    ]


def tokens() -> list[bytes]:
    return [
        bytes(64),
        b"\xff" * 64,
        (b"\x83\x70" + b"\x5a\x5a") * 16,
        filler("token/a", 64),
        filler("token/b", 64),
    ]


def device_ids() -> list[int]:
    return [0, 1, 0xFF, 0x100, 2**48 - 1, 2**48, 2**64 - 1, 0x7083_5A5A_8370_0011, 123456,
            int.from_bytes(filler("devid", 6), "little")]


def credentials() -> list[tuple[bytes, bytes]]:
    ks, ts = keys(), tokens()
    out = []
    for i in range(max(len(ks), len(ts))):
        out.append((ts[i % len(ts)], ks[i % len(ks)]))
    # byte-form credentials that look like text: white-space bytes at either end, nothing but ASCII hex digits
    out.append((b" " + filler("token/ws1", 63), filler("key/ws1", 31) + b"\n"))
    out.append((filler("token/ws2", 63) + b"\r", b"\t" + filler("key/ws2", 31)))
    out.append((b"0123456789abcdef" * 4, b"fedcba9876543210" * 2))
    return out


def payload(tag: str, n: int, pattern: int) -> bytes:
    """Content patterns: 0 zeros, 1 ones, 2 counting, 3 seeded filler, 4 filler with 5a5a / 8370 inside."""
    if pattern == 0:
        return bytes(n)
    if pattern == 1:
        return b"\xff" * n
    if pattern == 2:
        return bytes(i & 0xFF for i in range(n))
    f = filler(f"{tag}/{n}", n)
    if pattern == 3:
        return f
    b = bytearray(f)
    if n >= 4:
        b[n // 2 - 1:n // 2 + 1] = b"\x5a\x5a"
    if n >= 8:
        b[1:3] = b"\x83\x70"
    return bytes(b)
