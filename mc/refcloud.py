"""Reference NetHome Plus cloud server (for httpx.MockTransport)."""
from __future__ import annotations

import hashlib
import json
from typing import Callable, Optional
from urllib.parse import parse_qsl, urlparse

import httpx

APP_KEY = "3742e9e5842d4ad59c2db887e12449f9"
BASE = "https://mapp.appsmb.com"


class RefCloud:
    def __init__(self, account: str, password: str, tokens: list[dict], *, now_stamp: Callable[[], str],
                 plan: Optional[dict] = None, bogus_for_unknown: bool = False) -> None:
        self.account = account
        self.password = password
        self.tokens = tokens                  # list of {"udpId","token","key"}
        self.now_stamp = now_stamp
        self.plan = plan or {}                # endpoint -> list of answers ("ok","timeout","500","api")
        self.bogus_for_unknown = bogus_for_unknown
        self.login_id = "login-" + hashlib.md5(account.encode()).hexdigest()[:12]
        self.session_id = "sess-" + hashlib.md5((account + "s").encode()).hexdigest()[:16]
        self.logged_in = False
        self.requests: list[dict] = []
        self.slow_timeouts = True
        self.problems: list[str] = []
        self.observations: list[str] = []
        self.counts: dict[str, int] = {}

    # --- verification -------------------------------------------------
    def _verify(self, path: str, fields: dict, raw_pairs: list) -> None:
        def bad(msg):
            self.problems.append(f"{path}: {msg}")
        sign = fields.get("sign")
        pairs = sorted((k, v) for k, v in raw_pairs if k != "sign")
        query = "&".join(f"{k}={v}" for k, v in pairs)
        want = hashlib.sha256((path + query + APP_KEY).encode()).hexdigest()
        if sign != want:
            bad("bad signature")
        if len(set(k for k, _ in raw_pairs)) != len(raw_pairs):
            bad("duplicate form field")
        # constant fields and the time stamp are recorded, not judged: the contract named by the property is
        # signature, login id, password derivation and session id
        for k, v in (("appId", "1017"), ("src", "1017"), ("format", "2"), ("clientType", "1"), ("language", "en_US")):
            if fields.get(k) != v:
                self.observations.append(f"{path}: {k}={fields.get(k)!r}")
        if fields.get("stamp") != self.now_stamp():
            self.observations.append(f"{path}: stamp {fields.get('stamp')} != {self.now_stamp()}")
        if path == "/v1/user/login/id/get":
            if fields.get("loginAccount") != self.account:
                bad("loginAccount")
        elif path == "/v1/user/login":
            if fields.get("loginAccount") != self.account:
                bad("loginAccount")
            m1 = hashlib.sha256(self.password.encode()).hexdigest()
            if fields.get("password") != hashlib.sha256((self.login_id + m1 + APP_KEY).encode()).hexdigest():
                bad("password derivation")
        elif path == "/v1/iot/secure/getToken":
            if not self.logged_in or fields.get("sessionId") != self.session_id:
                bad("session id")
            if not fields.get("udpid"):
                bad("udpid missing")
        else:
            bad("unknown endpoint")

    # --- transport handler ---------------------------------------------
    async def async_handler(self, request: httpx.Request) -> httpx.Response:
        """Like handler(), but a timeout really takes the client's timeout (10 s of virtual time) to happen."""
        import asyncio
        try:
            return self.handler(request)
        except httpx.ReadTimeout:
            await asyncio.sleep(10.0)
            raise

    def handler(self, request: httpx.Request) -> httpx.Response:
        url = urlparse(str(request.url))
        path = url.path
        body = request.content.decode()
        raw_pairs = parse_qsl(body, keep_blank_values=True)
        fields = dict(raw_pairs)
        n = self.counts.get(path, 0)
        self.counts[path] = n + 1
        answers = self.plan.get(path, [])
        answer = answers[n] if n < len(answers) else "ok"
        rec = {"path": path, "fields": fields, "answer": answer, "method": request.method,
               "host": f"{url.scheme}://{url.netloc}", "ctype": request.headers.get("content-type", "")}
        self.requests.append(rec)
        if request.method != "POST" or rec["host"] != BASE:
            self.problems.append(f"{path}: {request.method} {rec['host']}")
        if "application/x-www-form-urlencoded" not in rec["ctype"]:
            self.observations.append(f"{path}: content-type {rec['ctype']}")
        self._verify(path, fields, raw_pairs)
        if answer == "timeout":
            raise httpx.ReadTimeout("simulated timeout", request=request)
        if answer == "proto":
            # the server (or a middlebox) drops the connection half way / answers with something that is not HTTP
            raise httpx.RemoteProtocolError("Server disconnected without sending a response.", request=request)
        if answer == "decode":
            raise httpx.DecodingError("Error -3 while decompressing data: incorrect header check", request=request)
        if answer in ("500", "502", "503", "504"):
            return httpx.Response(int(answer), text="server error", request=request)
        if answer == "404":
            return httpx.Response(404, text="<html>not found</html>", request=request)
        if answer == "302":
            return httpx.Response(302, headers={"location": "http://captive.portal/login"}, text="<html>moved</html>", request=request)
        if answer == "api":
            return httpx.Response(200, text=json.dumps({"errorCode": "3101", "msg": "value is illegal"}), request=request)
        if path == "/v1/user/login/id/get":
            result = {"loginId": self.login_id}
        elif path == "/v1/user/login":
            self.logged_in = True
            result = {"sessionId": self.session_id, "userId": "77"}
        else:
            lst = [dict(t) for t in self.tokens]
            udpid = fields.get("udpid")
            if self.bogus_for_unknown and not any(t["udpId"] == udpid for t in lst):
                lst.append({"udpId": udpid, "token": hashlib.sha512(b"bogus" + str(udpid).encode()).hexdigest(),
                            "key": hashlib.sha256(b"bogus" + str(udpid).encode()).hexdigest()})
            result = {"tokenlist": lst}
        return httpx.Response(200, text=json.dumps({"errorCode": "0", "msg": "ok", "result": result}), request=request)

    def client_factory(self):
        def make(*args, **kwargs):
            return httpx.AsyncClient(transport=httpx.MockTransport(self.async_handler if self.slow_timeouts else self.handler))
        return make
